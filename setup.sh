#!/bin/sh
# Offline setup: syntax-check every specification module and byte-compile the harness. Nothing is fetched.
set -e
HERE="$(cd "$(dirname "$0")" && pwd)"
cd "$HERE"
mkdir -p .work evidence replays
rc=0
for f in spec/*.tla; do
  out=$(cd spec && java -cp /opt/veriftools/tla/tla2tools.jar:/opt/veriftools/tla/CommunityModules-deps.jar tla2sany.SANY "$(basename "$f")" 2>&1) || { echo "$out"; echo "SANY failed: $f"; rc=1; }
  case "$out" in *"*** Errors"*|*"Fatal errors"*) echo "$out"; echo "SANY errors: $f"; rc=1;; esac
done
PYTHONDONTWRITEBYTECODE=1 /venv/bin/python - <<'PY' || rc=1
import sys, glob
ok = True
for f in glob.glob("harness/**/*.py", recursive=True):
    try:
        compile(open(f).read(), f, "exec")
    except Exception as e:
        print(f, e); ok = False
sys.exit(0 if ok else 1)
PY
[ $rc -eq 0 ] && echo "setup ok"
exit $rc
