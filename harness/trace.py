"""TRACE direction: traces recorded from the real library are validated by TLC against a trace specification.
Thousands of traces per JVM: every trace is one initial state; a trace consumed to its end prints ACCEPT <id>."""
import json
import os
import re

from . import tlc

ACC = re.compile(r'<<"ACCEPT", ("?)([^">]+)\1>>')
AT = re.compile(r'<<"AT", ("?)([^">,]+)\1, (\d+)>>')


def validate(module, cfg, traces, name, workers=16, timeout=3600, overrides=None, extra_marks=None):
    """traces: list of dicts each with a unique 'id' (int or str).  Returns (accepted ids, first failing step per
    rejected id, tlc result)."""
    ids = [str(t["id"]) for t in traces]
    if len(set(ids)) != len(ids):
        raise tlc.TlcFailure("duplicate trace ids")
    d = tlc.workdir("traces-" + name)
    path = os.path.join(d, "traces.ndjson")
    with open(path, "w") as fh:
        for t in traces:
            fh.write(json.dumps(t, separators=(",", ":")) + "\n")
    accepted = set()

    def on_line(line):
        if line.startswith('<<"ACCEPT"'):
            for m in ACC.finditer(line):
                accepted.add(m.group(2))
            return True
        for mark, dest in (extra_marks or {}).items():
            if line.startswith('<<"%s"' % mark):
                for m in re.finditer(r'<<"%s", ("?)([^">]+)\1>>' % mark, line):
                    dest.add(m.group(2))
                return True
        return False

    res = tlc.run(module, cfg, name=name, workers=workers, on_line=on_line, env={"TRACE_FILE": path},
                  timeout=timeout, overrides=overrides)
    rejected = [i for i in ids if i not in accepted]
    where = {}
    if rejected:
        byid = {str(t["id"]): t for t in traces}
        sub = [byid[i] for i in rejected[:400]]
        with open(path, "w") as fh:
            for t in sub:
                fh.write(json.dumps(t, separators=(",", ":")) + "\n")
        reached = {}

        def on_line2(line):
            if line.startswith('<<"AT"'):
                for m in AT.finditer(line):
                    reached[m.group(2)] = max(reached.get(m.group(2), 0), int(m.group(3)))
                return True
            return line.startswith('<<"ACCEPT"')

        ov = dict(overrides or {})
        ov["Verbose"] = "TRUE"
        tlc.run(module, cfg, name=name + "-why", workers=1, on_line=on_line2, env={"TRACE_FILE": path},
                timeout=timeout, overrides=ov)
        for i in rejected[:400]:
            where[i] = reached.get(i, 1)     # 1-based index of the first step that was not matched
    tlc.cleanup(d)
    return accepted, where, res
