"""Concrete files for TdmsData shapes and replay of window / slice / index requests (C04, C19, C03, C05, C14)."""
import io
import zlib

from . import enc, proj

X = "/'grp'/'x'"
Y = "/'grp'/'y'"
NONE = -1000

SIZED = ["Int8", "Int16", "Int32", "Int64", "Uint8", "Uint16", "Uint32", "Uint64", "SingleFloat", "DoubleFloat",
         "SingleFloatWithUnit", "DoubleFloatWithUnit", "Boolean", "TimeStamp", "ComplexSingleFloat",
         "ComplexDoubleFloat"]


def _h(*k):
    return zlib.crc32("/".join(str(x) for x in k).encode())


def build_shape_file(shape, seed=0, variant=0, xtype=None, ytype=None, with_y=None):
    """shape = {"segs": [{"pres","n","k","last"}], "il": bool} -> (file description, info)"""
    segs = shape["segs"]
    il = bool(shape["il"])
    trunc = bool(segs) and segs[-1]["pres"] and segs[-1]["last"] < segs[-1]["n"]
    h = _h(seed, variant, repr(shape))
    if xtype is None:
        cands = list(SIZED)
        if not il and not trunc:
            cands.append("String")
        xtype = cands[h % len(cands)]
    if ytype is None:
        cands = list(SIZED)
        if not il and not trunc:
            cands.append("String")
        ytype = cands[(h // 31) % len(cands)]
    if with_y is None:
        with_y = (h // 7) % 4 != 0          # three in four files have a second channel
    # long shapes (TdmsData.LongShape): the second channel comes first in every segment and keeps the first segment's
    # number of values throughout, so the per-segment tables of the two channels agree on a long prefix and differ
    # only in the tail (the implementation shares equal tables between channels, comparing them in blocks of 100)
    long_ = len(segs) > 50 and not il
    if long_:
        with_y = True
    be = (h // 3) % 2 == 1
    out = []
    nseg = len(segs)
    for j, s in enumerate(segs):
        hj = _h(h, j)
        last_seg = j == nseg - 1
        is_trunc = last_seg and trunc
        yfirst = True if long_ else (hj % 2 == 0)
        if s["pres"]:
            n, k = s["n"], s["k"]
            xo = {"p": X, "has": True, "n": n, "ty": xtype}
            objs = [xo]
            listed = [{"p": X, "kind": "full"}]
            if with_y:
                ny = n if il else (segs[0]["n"] if long_ else 1 + (hj // 5) % 2)
                yo = {"p": Y, "has": True, "n": ny, "ty": ytype}
                if yfirst:
                    objs = [yo, xo]
                    listed = [{"p": Y, "kind": "full"}, {"p": X, "kind": "full"}]
                else:
                    objs = [xo, yo]
                    listed = [{"p": X, "kind": "full"}, {"p": Y, "kind": "full"}]
            seg = {"meta": True, "newlist": True, "be": be, "il": il, "listed": listed, "objs": objs, "k": k}
            if is_trunc:
                sx = enc.size_of(xtype)
                sy = enc.size_of(ytype) if with_y else 0
                lastn = s["last"]
                stray = (hj // 11) % sx if sx > 1 else 0
                if il:
                    roww = sx + (sy if with_y else 0)
                    stray_row = (hj // 11) % roww if roww > 1 else 0
                    keep = lastn * roww + stray_row
                    if keep == 0:
                        keep = 1 if roww > 1 else 0
                    chunk = n * roww
                else:
                    ny = objs[0]["n"] if (with_y and yfirst) else (objs[1]["n"] if with_y else 0)
                    if with_y and yfirst:
                        keep = ny * sy + lastn * sx + stray
                        chunk = ny * sy + n * sx
                    else:
                        keep = lastn * sx + stray
                        chunk = n * sx + (ny * sy if with_y else 0)
                        if keep == 0:
                            # nothing would be left of the final chunk: leave one stray byte if a value is wider
                            keep = 1 if sx > 1 else 0
                seg["drop"] = chunk - keep
                seg["declare_full"] = True
                seg["final_keep"] = keep
            out.append(seg)
        else:
            # X has no data here: not in the list / listed without data / zero values per chunk
            mode = hj % 3
            ky = 1 + (hj // 13) % 2
            objs, listed = [], []
            if with_y:
                ny = 1 + (hj // 5) % 2
                objs.append({"p": Y, "has": True, "n": ny, "ty": ytype})
                listed.append({"p": Y, "kind": "full"})
            if mode == 1:
                objs.append({"p": X, "has": False, "n": 0, "ty": xtype})
                listed.append({"p": X, "kind": "nodata"})
            elif mode == 2 and not il:
                objs.insert(0 if yfirst else len(objs), {"p": X, "has": True, "n": 0, "ty": xtype})
                listed.insert(0 if yfirst else len(listed), {"p": X, "kind": "full"})
            k = ky if with_y else 0
            out.append({"meta": True, "newlist": True, "be": be, "il": il and with_y and mode != 2,
                        "listed": listed, "objs": objs, "k": k})
    return {"segs": out}, {"xtype": xtype, "ytype": ytype, "with_y": with_y, "be": be, "trunc": trunc}


def expected_of(exp, values, ty):
    """specification result {"err","vals"} -> comparable"""
    if exp["err"]:
        return {"err": exp["err"]}
    vals = exp["vals"]
    return {"data": proj.expected_elems(ty, [values[t] for t in vals])}


def perform(ch, req):
    """Execute one request on a channel -> {"err": name} | {"data": elems, "dtype": ...}"""
    try:
        k = req["kind"]
        if k == "window":
            ln = None if req["len"] == NONE else req["len"]
            arr = ch.read_data(req["off"], ln)
        elif k == "slice":
            sl = slice(*[None if v == NONE else v for v in (req["start"], req["stop"], req["step"])])
            arr = ch[sl]
        elif k == "index":
            v = ch[req["i"]]
            return {"data": [proj.indexed_scalar(v)], "dtype": "scalar"}
        else:
            raise AssertionError(k)
        return {"data": proj.elems(arr), "dtype": proj.norm_dtype(arr.dtype) if hasattr(arr, "dtype") else "list"}
    except (IndexError, ValueError) as e:
        return {"err": type(e).__name__, "msg": str(e)}
    except Exception as e:  # noqa
        return {"err": type(e).__name__, "msg": str(e)}


def replay_data_case(case):
    """worker for C04: one shape, all its requests, lazy and eager."""
    from nptdms import TdmsFile
    rec = case["rec"]
    seed = case["seed"]
    fails = []
    n = 0
    if not rec["shape"]["segs"]:
        return {"n": 0, "keys": [], "fails": [], "validated": 0}      # zero bytes are not a TDMS file
    fd, info = build_shape_file(rec["shape"], seed, case.get("variant", 0))
    e = enc.encode(fd, seed)
    values = e.values.get(X, [])
    if (len(values) != rec["len"] and not info["trunc"]) or len(values) < rec["len"]:
        raise AssertionError("encoder laid out %d values, specification says %d" % (len(values), rec["len"]))
    # In a truncated last segment the encoder laid out the whole final chunk but the file keeps only `last' of
    # its X values; the final chunk is the last thing in the file, so X's values are a prefix of what was laid out.
    values = values[:rec["len"]]
    ty = info["xtype"]
    for mode in case["modes"]:
        try:
            if mode == "lazy":
                f = TdmsFile.open(io.BytesIO(e.data), raw_timestamps=True)
            else:
                f = TdmsFile.read(io.BytesIO(e.data), raw_timestamps=True)
            ch = f["grp"]["x"] if "grp" in f and "x" in f["grp"] else None
        except Exception as ex:  # noqa
            fails.append(({"kind": "open-failed", "mode": mode, "exception": type(ex).__name__},
                          {"shape": rec["shape"], "info": info, "seed": seed, "variant": case.get("variant", 0),
                           "hex": e.data.hex(), "exception": "%s: %s" % (type(ex).__name__, ex)}))
            continue
        if ch is None:
            if rec["len"] == 0:
                continue        # the channel never appears in the file: nothing to ask
            fails.append(({"kind": "channel-missing", "mode": mode}, {"shape": rec["shape"], "hex": e.data.hex()}))
            continue
        if mode == "lazy" and len(rec["shape"]["segs"]) > 50 and info["with_y"]:
            # long shapes: the other channel's table is built first, so that sharing it with x is possible at all
            # (the statement quantifies over files and requests; what was read before must not matter, C05)
            try:
                f["grp"]["y"][0]
            except Exception:  # noqa
                pass
        if len(ch) != rec["len"]:
            fails.append(({"kind": "length", "mode": mode, "trunc": info["trunc"]},
                          {"shape": rec["shape"], "info": info, "expected": rec["len"], "observed": len(ch),
                           "seed": seed, "variant": case.get("variant", 0), "hex": e.data.hex()}))
            continue
        for c in rec["cases"]:
            req = c["req"]
            n += 1
            exp = expected_of(c["expect"], values, ty)
            got = perform(ch, req)
            ok = (got.get("err") == exp.get("err")) if ("err" in exp or "err" in got) else got["data"] == exp["data"]
            if not ok:
                fails.append((request_signature(rec, req, mode, info, exp, got),
                              {"shape": rec["shape"], "info": info, "req": req, "mode": mode, "seed": seed,
                               "variant": case.get("variant", 0), "expected": exp, "observed": got,
                               "hex": e.data.hex()}))
                if len(fails) > 20:
                    break
        if mode == "lazy":
            f.close()
    key = _h(repr(rec["shape"]))
    return {"n": n, "keys": [key] if rec["len"] > 0 else [], "fails": fails, "validated": 1}


def request_signature(rec, req, mode, info, exp, got):
    segs = rec["shape"]["segs"]
    absent_mid = any((not s["pres"]) for s in segs[1:-1]) if len(segs) >= 3 else False
    sig = {"kind": "request-mismatch", "op": req["kind"], "mode": mode, "zero_length": rec["len"] == 0,
           "absent_intermediate": absent_mid, "trunc": info["trunc"],
           "expected_err": exp.get("err", ""), "observed_err": got.get("err", "")}
    if req["kind"] == "slice":
        sig["neg_start"] = (req["start"] != NONE and req["start"] < 0)
    return sig


def layout_of(fd, e, xtype):
    """per-segment byte layout facts of the encoded file, as logged into footprint traces"""
    lay = []
    for seg, es in zip(fd["segs"], e.segs):
        dataobjs = [o for o in seg["objs"] if o["has"]]
        xoff = xlen = 0
        off = 0
        row = 0
        for o in dataobjs:
            sz = enc.size_of(o["ty"])
            row += sz or 0
        if es["layout"]:
            for (p, start, nb, nv) in es["layout"][0]:
                if p == X:
                    xoff, xlen = start, nb
        else:
            for o in dataobjs:
                if o["p"] == X:
                    xoff, xlen = off, (enc.size_of(o["ty"]) or 0) * o["n"]
                off += (enc.size_of(o["ty"]) or 0) * o["n"]
        lay.append({"pos": es["pos"], "dataPos": es["dataPos"], "chunkBytes": es["chunkBytes"], "xoff": xoff,
                    "xlen": xlen, "xsz": enc.size_of(xtype) or 0, "rowBytes": row})
    return lay


def record_footprint_case(case):
    """worker for C19: one shape -> one trace: all windows and indices of the shape executed on ONE lazily opened
    file over a recording stream; every step logs the reads the library issued."""
    from nptdms import TdmsFile
    from .recstream import RecordingStream, RawRecordingStream
    if case.get("variant", 0) % 2 == 1:
        RecordingStream = RawRecordingStream          # noqa: every other shape is served through a raw stream
    rec = case["rec"]
    seed = case["seed"]
    if not rec["shape"]["segs"] or rec["len"] == 0:
        return {"n": 0, "keys": [], "fails": [], "validated": 0, "trace": None}
    fd, info = build_shape_file(rec["shape"], seed, case.get("variant", 0))
    e = enc.encode(fd, seed)
    stream = RecordingStream(e.data)
    f = TdmsFile.open(stream, raw_timestamps=True)
    ch = f["grp"]["x"]
    steps = []
    reqs = [c["req"] for c in rec["cases"] if c["req"]["kind"] in ("window", "index")]
    # deterministic order: windows first sorted, then indices ascending then descending (cache hits and misses)
    wins = sorted([r for r in reqs if r["kind"] == "window"], key=lambda r: (r["off"], r["len"]))
    idx = sorted([r for r in reqs if r["kind"] == "index"], key=lambda r: r["i"])
    # slices (forward, strided, reversed from the far end): the harness picks them, the trace specification derives
    # the window each one needs
    L_ = rec["len"]
    NV = NONE
    slices = [{"kind": "slice", "start": a, "stop": b, "step": c} for (a, b, c) in
              [(L_ - 1, max(L_ - 3, -1) if L_ > 3 else NV, -1), (NV, NV, -1), (L_ - 1, L_ // 2, -2), (1, L_, 2),
               (L_ // 2, NV, NV), (-2, NV, NV), (L_, L_ + 3, 1), (2, 2, NV)]]
    order = wins + idx + idx[::-1] + idx[::2] + slices
    stream.recording = True
    impl = []
    try:
        from nptdms import _verif
        _verif.set_sink(lambda rr: impl.append(rr) if rr.get("event") == "channel_window" else None)
        hooked = _verif.enabled()
    except ImportError:
        _verif, hooked = None, False
    seg_of_pos = {es["pos"]: j + 1 for j, es in enumerate(e.segs)}
    for r in order:
        stream.take()
        del impl[:]
        perform(ch, r)
        st = dict(r)
        st["reads"] = stream.take()
        st["hooked"] = bool(hooked)
        st["impl"] = [[seg_of_pos.get(x["segment_position"], 0), x["chunk_offset"], max(x["num_chunks"], 0)] for x in impl]
        steps.append(st)
        st["fresh"] = False
    f.close()
    # the first request a file serves: some narrow requests, each on a file opened afresh (nothing indexed or cached yet)
    narrow = [r for r in wins if r["len"] == 1] + idx + slices[:3]
    hh = _h(repr(rec["shape"]), seed)
    for q in range(min(4, len(narrow))):
        r = narrow[(hh + q * 7919) % len(narrow)]
        stream2 = RecordingStream(e.data)
        f2 = TdmsFile.open(stream2, raw_timestamps=True)
        stream2.recording = True
        stream2.take()
        del impl[:]
        perform(f2["grp"]["x"], r)
        st = dict(r)
        st["reads"] = stream2.take()
        st["hooked"] = bool(hooked)
        st["impl"] = [[seg_of_pos.get(x["segment_position"], 0), x["chunk_offset"], max(x["num_chunks"], 0)] for x in impl]
        st["fresh"] = True
        steps.append(st)
        f2.close()
    if _verif is not None:
        _verif.set_sink(None)
    trace = {"id": case["id"], "il": bool(rec["shape"]["il"]), "segs": rec["shape"]["segs"],
             "lay": layout_of(fd, e, info["xtype"]), "steps": steps,
             "info": {"xtype": info["xtype"], "with_y": info["with_y"], "variant": case.get("variant", 0)}}
    return {"n": len(steps), "keys": [_h(repr(rec["shape"]))], "fails": [], "validated": 0, "trace": trace}
