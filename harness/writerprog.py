"""Replay of TdmsWriter programs (C07, C08): concrete arrays / property values per class, execution with the real
TdmsWriter, read-back and comparison with the specification's expectation."""
import io
import os
import shutil
import struct
import tempfile
import zlib
from datetime import datetime

import numpy as np

from . import proj, parser
from .common import ROOT

SCRATCH = os.path.join(ROOT, ".work")

NPDT = {"np_int8": "i1", "np_int16": "<i2", "np_int32": "<i4", "np_int64": "<i8", "np_uint8": "u1", "np_uint16": "<u2",
        "np_uint32": "<u4", "np_uint64": "<u8", "np_float32": "<f4", "np_float64": "<f8", "np_bool": "?",
        "np_complex64": "<c8", "np_complex128": "<c16", "np_be_int32": ">i4", "np_be_float64": ">f8"}
LIST_BUCKET = {  # (lo, hi, required witness) per _infer_dtype bucket
    "list_i8": (-128, 127, [-128, 127]), "list_u8": (0, 255, [128, 255]), "list_i16": (-32768, 32767, [-129, 32767]),
    "list_u16": (0, 65535, [32768, 65535]), "list_i32": (-2 ** 31, 2 ** 31 - 1, [-32769, 2 ** 31 - 1]),
    "list_u32": (0, 2 ** 32 - 1, [2 ** 31, 2 ** 32 - 1]), "list_i64": (-2 ** 63, 2 ** 63 - 1, [-2 ** 31 - 1, 2 ** 63 - 1]),
    "list_u64": (0, 2 ** 64 - 1, [2 ** 63, 2 ** 64 - 1])}
LIST_NP = {"list_i8": "i1", "list_u8": "u1", "list_i16": "<i2", "list_u16": "<u2", "list_i32": "<i4", "list_u32": "<u4",
           "list_i64": "<i8", "list_u64": "<u8"}
# microsecond values that the pinned float conversion gets wrong (D6) come first
US = [4146, 493, 999999, 986, 1, 0, 1972, 500000, 123457, 8293, 16585, 999998, 250001, 1985, 3944, 7829]
STRS = ["a", "bc", "", "x y", "it's", "/p"]
MSTRS = ["é中", "\U0001F600x", "ß", "", "'é'/", "\ufeffbom", "two\nlines"]


def _rng(*k):
    import random
    return random.Random(zlib.crc32("/".join(str(x) for x in k).encode()))


def make_array(ac, n, p, start, seed):
    """-> (argument for ChannelObject, expected elems, expected dtype names (set), read mode 'cooked'|'raw')"""
    r = _rng(seed, ac, p, start)
    if ac in NPDT:
        dt = np.dtype(NPDT[ac])
        nat = dt.newbyteorder("<")
        raw = bytes(r.getrandbits(8) for _ in range(n * dt.itemsize))
        if dt.kind == "b":
            raw = bytes(b & 1 for b in raw)
        le = np.frombuffer(raw, dtype=nat).copy()
        if start == 0 and n > 0 and dt.kind in "iu":
            info = np.iinfo(nat)
            le[0] = info.min
            if n > 1:
                le[1] = info.max
        arr = le.astype(dt)
        return arr, proj.elems(le), {proj.norm_dtype(nat)}, "cooked"
    if ac in LIST_BUCKET:
        lo, hi, wit = LIST_BUCKET[ac]
        vals = [wit[(start + i) % 2] if i < 1 or (i < 2 and start == 0) else r.randrange(max(lo, -2 ** 62), min(hi, 2 ** 62) + 1)
                for i in range(n)]
        # a single-element list must still fall into the bucket: the first witness does
        if n >= 1:
            vals[0] = wit[0] if (wit[0] < 0 or ac.startswith("list_u")) else wit[1]
            if ac.startswith("list_i") and n >= 1:
                vals[0] = wit[0]
        exp = np.array(vals, dtype=LIST_NP[ac])
        return vals, proj.elems(exp), {proj.norm_dtype(LIST_NP[ac])}, "cooked"
    if ac == "list_float":
        vals = [[1.5, -0.0, float("inf"), 1e-300, 3.0][(start + i) % 5] for i in range(n)]
        return vals, proj.elems(np.array(vals, dtype="<f8")), {"float64"}, "cooked"
    if ac == "list_bool":
        vals = [bool((start + i) % 3 != 1) for i in range(n)]
        return vals, proj.elems(np.array(vals, dtype="i1")), {"int8", "bool"}, "cooked"
    if ac == "list_str_all_empty":
        return [""] * n, ["s:"] * n, {"object"}, "cooked"
    if ac in ("list_str", "np_str", "list_str_multibyte", "np_obj_str"):
        src = MSTRS if ac == "list_str_multibyte" else STRS
        if ac == "np_obj_str":
            # object arrays keep NUL characters.  (Lists and '<U' arrays go through NumPy's fixed-width text, which
            # cannot represent a trailing NUL: what the writer is handed no longer has it - not judged.)
            src = ["pad\x00", "\x00", "a\x00b"] + STRS
        elif ac == "list_str":
            src = STRS + ["a\x00b"]
        vals = ["%d%s" % (start + i, src[(start + i) % len(src)]) if (start + i) % 4 else src[(start + i) % len(src)]
                for i in range(n)]
        arg = np.array(vals) if ac == "np_str" else (np.array(vals, dtype=object) if ac == "np_obj_str" else vals)
        return arg, ["s:" + v for v in vals], {"object"}, "cooked"
    if ac in ("np_datetime64_us", "np_datetime64_ns", "list_datetime", "np_obj_datetime", "list_datetime64",
              "list_datetime_tz"):
        SECS = [1600000000, -2500000000, 0, 86399, -2082844801]       # two of them lie before 1904
        us = [SECS[(start + i) % 5] * 10 ** 6 + 3600 * 10 ** 6 * i + US[(start + i) % len(US)] for i in range(n)]
        exp = [struct.pack("<q", v).hex() for v in us]
        if ac == "list_datetime64":
            # NumPy scalars of mixed resolution, the coarsest first (a time axis parsed from text): seconds, then
            # milliseconds, then microseconds - the microsecond values are the ones that count
            us = [v - v % 10 ** 6 if i == 0 else (v - v % 1000 if i == 1 else v) for i, v in enumerate(us)]
            exp = [struct.pack("<q", v).hex() for v in us]
            arg = [np.datetime64(v // 10 ** 6, "s") if i == 0 else
                   (np.datetime64(v // 1000, "ms") if i == 1 else np.datetime64(v, "us")) for i, v in enumerate(us)]
        elif ac == "np_datetime64_us":
            arg = np.array(us, dtype="datetime64[us]")
        elif ac == "np_datetime64_ns":
            arg = np.array([v * 1000 for v in us], dtype="datetime64[ns]")
        else:
            us = [abs(v) % (4 * 10 ** 15) for v in us]
            exp = [struct.pack("<q", v).hex() for v in us]
            arg = [datetime(1970, 1, 1) + (np.timedelta64(v, "us").astype(object)) for v in us]
            if ac == "list_datetime_tz":
                # the same instants, told in a time zone two and a half hours ahead of UTC
                from datetime import timezone, timedelta
                tz = timezone(timedelta(hours=2, minutes=30))
                arg = [(a_.replace(tzinfo=timezone.utc)).astimezone(tz) for a_ in arg]
            if ac == "np_obj_datetime":
                arg = np.array(arg, dtype=object)
        return arg, exp, {"datetime64[us]"}, "cooked"
    if ac == "timestamp_array":
        from nptdms.timestamp import TimestampArray
        recs = [((r.getrandbits(64) if i else (1 << 64) - 1), r.randrange(-2 ** 33, 2 ** 33)) for i in range(n)]
        a = np.array(recs, dtype=[("second_fractions", "<u8"), ("seconds", "<i8")])
        exp = [struct.pack("<Qq", f, s).hex() for (f, s) in recs]
        return TimestampArray(a), exp, {"record(second_fractions,seconds)"}, "raw"
    raise ValueError(ac)


def make_value(vc, seed):
    """-> (python value, expected canonical read-back, read mode)"""
    from nptdms import types
    from nptdms.timestamp import TdmsTimestamp
    if vc == "float_five":
        return 5.0, proj.prop_canon(5.0), "cooked"          # numerically equal to the int class int_small
    if vc == "str_tag":
        return "converted from TDSm by TDSh", "s:converted from TDSm by TDSh", "cooked"
    ints = {"int_three": 3, "int_small": 5, "int_neg": -7, "int_m2p31": -2 ** 31, "int_2p31m1": 2 ** 31 - 1, "int_2p31": 2 ** 31,
            "int_lt_m2p31": -2 ** 31 - 1, "int_2p63m1": 2 ** 63 - 1, "int_m2p63": -2 ** 63, "int_2p63": 2 ** 63,
            "int_2p64m1": 2 ** 64 - 1}
    if vc in ints:
        return ints[vc], "i:%d" % ints[vc], "cooked"
    if vc == "float":
        return 1.5, proj.prop_canon(1.5), "cooked"
    if vc == "float_nan":
        return float("nan"), proj.prop_canon(float("nan")), "cooked"
    if vc == "float_int_valued":
        return 3.0, proj.prop_canon(3.0), "cooked"
    if vc == "bool_true":
        return True, "b:1", "cooked"
    if vc == "bool_false":
        return False, "b:0", "cooked"
    if vc == "np_bool":
        return np.bool_(True), "b:1", "cooked"
    if vc == "str_ascii":
        return "abc", "s:abc", "cooked"
    if vc == "str_multibyte":
        return "\ufeffé中\U0001F600\nx", "s:\ufeffé中\U0001F600\nx", "cooked"
    if vc == "str_empty":
        return "", "s:", "cooked"
    us = 1614834367004146 + (seed % 7) * 4146
    if vc == "datetime_tz":
        from datetime import timezone, timedelta
        naive = datetime(1970, 1, 1) + (np.timedelta64(us, "us").astype(object))
        aware = naive.replace(tzinfo=timezone.utc).astimezone(timezone(timedelta(hours=-7)))
        return aware, "dt:%d" % us, "cooked"
    if vc == "datetime":
        return datetime(1970, 1, 1) + np.timedelta64(us, "us").astype(object), "dt:%d" % us, "cooked"
    if vc == "datetime64_us":
        return np.datetime64(us, "us"), "dt:%d" % us, "cooked"
    if vc == "datetime64_s":
        return np.datetime64(us // 10 ** 6, "s"), "dt:%d" % (us // 10 ** 6 * 10 ** 6), "cooked"
    if vc == "tdms_timestamp":
        t = TdmsTimestamp(3600 + seed % 5, (1 << 63) + 12345)
        return t, proj.prop_canon(t), "raw"
    npv = {"np_int8": np.int8(-5), "np_int16": np.int16(-300), "np_int32": np.int32(-70000), "np_int64": np.int64(-2 ** 40),
           "np_uint8": np.uint8(200), "np_uint16": np.uint16(60000), "np_uint32": np.uint32(4 * 10 ** 9),
           "np_uint64": np.uint64(2 ** 63 + 1), "np_float32": np.float32(1.25), "np_float64": np.float64(-2.5)}
    if vc in npv:
        v = npv[vc]
        return v, ("f:" + struct.pack("<d", float(v)).hex()) if "float" in vc else "i:%d" % int(v), "cooked"
    wrap = {"wrap_Int8": (types.Int8, -5), "wrap_Int16": (types.Int16, -300), "wrap_Uint8": (types.Uint8, 200),
            "wrap_Uint16": (types.Uint16, 60000), "wrap_Uint32": (types.Uint32, 4 * 10 ** 9),
            "wrap_Int64": (types.Int64, -2 ** 40), "wrap_SingleFloat": (types.SingleFloat, 2.5),
            "wrap_String": (types.String, "wé"), "wrap_Boolean": (types.Boolean, True)}
    if vc in wrap:
        cls, v = wrap[vc]
        canon = "b:1" if vc == "wrap_Boolean" else ("s:" + v if vc == "wrap_String" else
                                                     (proj.prop_canon(float(v)) if "Float" in vc else "i:%d" % v))
        return cls(v), canon, "cooked"
    raise ValueError(vc)


def _names(path):
    parts = path.strip("/").split("/")
    return [p.strip("'") for p in parts if p]


# The specification's names g1, g2, a, b stand for arbitrary strings: some programs are run with awkward ones (empty,
# a quote, slashes).  Injective per level, so the observed paths translate back one to one.
# (group names keep their sorting order: the writer declares missing groups in sorted order, `GroupRank' in the spec)
NAME_VARIANTS = [{}, {"g1": "", "a": ""}, {"g1": "'g", "g2": "g/2'", "b": "/", "a": "'"},
                 {"g1": "G\n1", "g2": "g\ufeff2", "a": "a\nb", "b": "\ufeff"}]


def _concrete_path(names):
    return "/" + "/".join("'" + n.replace("'", "''") + "'" for n in names)


def rename_view(view, inv):
    """observed view keyed by concrete paths -> keyed by the specification's paths"""
    if not inv:
        return view
    t = lambda p: inv.get(p, p)     # noqa
    out = dict(view)
    out["groups"] = [t(g) for g in view["groups"]]
    out["gchans"] = {t(g): [t(c) for c in cs] for g, cs in view["gchans"].items()}
    out["chans"] = {t(c): v for c, v in view["chans"].items()}
    out["props"] = {t(p): v for p, v in view["props"].items()}
    return out


HISTORY_CLASSES = ["list_datetime", "np_obj_str", "np_obj_datetime", "timestamp_array", "list_str", "list_i8",
                   "list_bool", "np_str", "list_float", "np_datetime64_ns", "np_be_int32"]


def process_history(h):
    """Another writer used earlier in the same process.  The specification keeps no state outside a writer object, so
    what an unrelated writer was given before must not influence this program (the rotation makes every ordered pair of
    the classes above occur before some program)."""
    from nptdms import TdmsWriter, ChannelObject
    k = h % len(HISTORY_CLASSES)
    order = (HISTORY_CLASSES[k:] + HISTORY_CLASSES[:k])[:3]
    with TdmsWriter(io.BytesIO()) as w:
        for ac in order:
            arg = make_array(ac, 2, "/'h'/'h'", 0, 0)[0]
            w.write_segment([ChannelObject("h", ac, arg, {"p": 1})])
    return len(order)


def run_program(rec, seed, target="stream", index=False, version=4712):
    """Execute the program with the real TdmsWriter.  -> dict(data bytes, index bytes, expected per channel, ...)"""
    from nptdms import TdmsWriter, RootObject, GroupObject, ChannelObject
    prog = rec["prog"]
    cls = rec["cls"]
    exp_data = {}      # path -> list of elems
    exp_dtypes = {}
    read_mode = {}
    counts = {}
    prop_exp = {}      # path -> {name: (canon, mode, vc)}
    tmp = None
    buf = io.BytesIO()
    ibuf = io.BytesIO() if index else False
    path = None
    if target == "path":
        tmp = tempfile.mkdtemp(prefix="c07-", dir=SCRATCH)
        # the index file of <path> is <path>_index, whatever the file is called
        fnames = ["f.tdms", "RUN_0001.TDMS", "logfile", "capture.tdms.part", "a.b.tdms"]
        path = os.path.join(tmp, fnames[(zlib.crc32(repr(prog).encode()) // 7 + seed) % len(fnames)])
    writer = None
    nwrites = 0
    nmap = NAME_VARIANTS[(zlib.crc32(repr(prog).encode()) // 17 + seed) % len(NAME_VARIANTS)]
    inv = {}
    refused = []       # problems with calls the writer must refuse
    mutated = []       # channels whose caller-side array was modified by the writer
    try:
        history_writes = process_history(zlib.crc32(repr(prog).encode()) + seed)
        for call in prog:
            if call["call"] == "open":
                if target == "path":
                    writer = TdmsWriter(path, mode=call["mode"], version=version, index_file=bool(index))
                else:
                    if call["mode"] == "a":
                        buf.seek(0, 2)
                        if index:
                            ibuf.seek(0, 2)
                    writer = TdmsWriter(buf, version=version, index_file=ibuf)
                writer.open()
            elif call["call"] == "close":
                writer.close()
                writer = None
            elif call["call"] == "refused":
                # RefusedWrite of the specification: must raise, write nothing, change nothing
                bad = []
                for pth in call["paths"]:
                    nms = [nmap.get(x, x) for x in _names(pth)]
                    if len(nms) == 0:
                        bad.append(RootObject())
                    elif len(nms) == 1:
                        bad.append(GroupObject(nms[0]))
                    else:
                        bad.append(ChannelObject(nms[0], nms[1], make_array(cls[pth], 2, pth, 0, seed)[0]))
                gname = next((ob.group for ob in bad if isinstance(ob, (ChannelObject, GroupObject))), "g1")
                before = _size(target, path, buf, writer)
                if call["kind"] == "list_beyond_inferred_type":
                    # a list whose values do not fit the type its extremes suggest (int8 for [-1, 200]): refused when
                    # the ChannelObject is built
                    try:
                        bad.append(ChannelObject(gname, "refused", [[-1, 200], [-5, 40000], [-1, 3000000000]][nwrites % 3]))
                        writer.write_segment(bad)
                        refused.append("accepted:" + call["kind"])
                    except Exception:  # noqa
                        if _size(target, path, buf, writer) != before:
                            refused.append("left-bytes:" + call["kind"])
                    continue
                if call["kind"] == "bad_property_value":
                    bad.append(ChannelObject(gname, "refused", np.zeros(1), {"bad": None}))
                elif call["kind"] == "unsupported_dtype":
                    bad.append(ChannelObject(gname, "refused", np.zeros(2, dtype=np.float16)))
                else:
                    bad += [ChannelObject(gname, "refused", np.zeros(1)), ChannelObject(gname, "refused", np.zeros(1))]
                before = _size(target, path, buf, writer)
                try:
                    writer.write_segment(bad)
                    refused.append("accepted:" + call["kind"])
                except Exception:  # noqa
                    if _size(target, path, buf, writer) != before:
                        refused.append("left-bytes:" + call["kind"])
            else:
                objs = []
                for o in call["objs"]:
                    props = None
                    if o["prop"]:
                        nm, vc = o["prop"]
                        v, canon, mode = make_value(vc, seed + nwrites)
                        props = {nm: v}
                        prop_exp.setdefault(o["p"], {})[nm] = (canon, mode, vc)
                    nms = [nmap.get(x, x) for x in _names(o["p"])]
                    inv[_concrete_path(nms) if nms else "/"] = o["p"]
                    if len(nms) >= 1:
                        inv[_concrete_path(nms[:1])] = "/'%s'" % _names(o["p"])[0]
                    if len(nms) == 0:
                        objs.append(RootObject(props))
                    elif len(nms) == 1:
                        objs.append(GroupObject(nms[0], props))
                    else:
                        ac = cls[o["p"]]
                        start = counts.get(o["p"], 0)
                        arg, ex, dts, mode = make_array(ac, o["len"], o["p"], start, seed)
                        counts[o["p"]] = start + o["len"]
                        exp_data.setdefault(o["p"], []).extend(ex)
                        exp_dtypes[o["p"]] = dts
                        read_mode[o["p"]] = mode
                        objs.append(ChannelObject(nms[0], nms[1], arg, props))
                hh = zlib.crc32(repr(prog).encode()) + seed + nwrites
                if hh % 3 == 0:
                    # a call the writer refuses is not a step of the specification (stuttering): it must raise and leave
                    # neither bytes nor bookkeeping behind.  Three kinds of refusal, on the objects of the next call.
                    kind = (hh // 3) % 3
                    chan = [ob for ob in objs if isinstance(ob, ChannelObject)]
                    gname = chan[0].group if chan else "g1"
                    if kind == 0:
                        bad = objs + [ChannelObject(gname, "refused", np.zeros(1), {"bad": None})]
                    elif kind == 1:
                        bad = objs + [ChannelObject(gname, "refused", np.zeros(2, dtype=np.float16))]
                    else:
                        bad = objs + [ChannelObject(gname, "refused", np.zeros(1)), ChannelObject(gname, "refused", np.zeros(1))]
                    before = _size(target, path, buf, writer)
                    try:
                        writer.write_segment(bad)
                        refused.append("accepted:%d" % kind)
                    except Exception:  # noqa
                        if _size(target, path, buf, writer) != before:
                            refused.append("left-bytes:%d" % kind)
                snaps = [(ob.path, ob.data, ob.data.dtype.str, ob.data.tobytes()) for ob in objs
                         if isinstance(ob, ChannelObject) and isinstance(ob.data, np.ndarray) and ob.data.dtype.kind != "O"]
                writer.write_segment(objs)
                for (pth, arr, dts_, raw_) in snaps:
                    if arr.dtype.str != dts_ or arr.tobytes() != raw_:
                        mutated.append(pth)
                nwrites += 1
        if writer is not None:
            writer.close()
        if target == "path":
            data = open(path, "rb").read()
            idx = open(path + "_index", "rb").read() if index else None
        else:
            data = buf.getvalue()
            idx = ibuf.getvalue() if index else None
    finally:
        if tmp:
            shutil.rmtree(tmp, ignore_errors=True)
    return {"data": data, "index": idx, "exp_data": exp_data, "exp_dtypes": exp_dtypes, "read_mode": read_mode,
            "prop_exp": prop_exp, "nwrites": nwrites, "history_writes": history_writes, "refused": refused,
            "mutated": [inv.get(m, m) for m in mutated], "inv": inv}


def _size(target, path, buf, writer=None):
    if target == "path":
        if writer is not None and getattr(writer, "_file", None) is not None:
            writer._file.flush()
        return os.path.getsize(path)
    return len(buf.getvalue())


def replay_writer_case(case):
    """worker for C07"""
    from nptdms import TdmsFile
    rec = case["rec"]
    seed = case["seed"]
    fails = []
    nwrites = sum(1 for c in rec["prog"] if c["call"] == "write")
    if nwrites == 0:
        return {"n": 0, "keys": [], "fails": [], "validated": 0}
    h = zlib.crc32(repr(rec["prog"]).encode())
    target = "path" if (h + seed) % 5 == 0 else "stream"
    version = 4713 if (h // 5) % 2 else 4712
    big = any(o.get("len", 0) > 100000 for c in rec["prog"] if c["call"] == "write" for o in c["objs"])
    if big and not case.get("_target"):
        # large arrays: both destinations (a stream cannot take ndarray.tofile, a path can)
        a = replay_writer_case(dict(case, _target="stream"))
        b = replay_writer_case(dict(case, _target="path"))
        return {"n": a["n"] + b["n"], "keys": a["keys"], "fails": a["fails"] + b["fails"], "validated": 1, "obs": a.get("obs")}
    target = case.get("_target", target)

    def sig(kind, **kw):
        s = {"kind": kind}
        s.update(kw)
        return s

    impl = []
    try:
        from nptdms import _verif
        _verif.set_sink(lambda r: impl.append(r) if r.get("event") == "write_segment" else None)
    except ImportError:
        _verif = None
    try:
        out = run_program(rec, seed, target=target, version=version)
    except Exception as ex:  # noqa
        import traceback
        if _verif is not None:
            _verif.set_sink(None)
        fails.append((sig("writer-raised", exception=type(ex).__name__,
                          classes=sorted(set(rec["cls"].values()))[:3]),
                      {"prog": rec["prog"], "cls": rec["cls"], "exception": traceback.format_exc()[-1500:]}))
        return {"n": 1, "keys": [h], "fails": fails, "validated": 1}
    if _verif is not None:
        _verif.set_sink(None)
    # refinement (diagnostic): the object paths each write_segment call emitted, as logged by the hook, against the
    # specification's `emitted' segments
    obs = {}
    if impl:
        spec_paths = [[o["p"] for o in seg["objs"]] for seg in rec["emitted"]]
        mine = impl[out.get("history_writes", 0):]      # the hook also logged the process history's writer
        inv_ = out.get("inv", {})
        obs["writer_calls_refined" if [[inv_.get(q, q) for q in r["paths"]] for r in mine] == spec_paths
            else "writer_calls_not_refined"] = 1
    bundle = {"prog": rec["prog"], "cls": rec["cls"], "seed": seed, "target": target, "version": version,
              "hex": out["data"].hex()}
    try:
        cooked = proj.project_file(TdmsFile.read(io.BytesIO(out["data"]), raw_timestamps=False), raw_timestamps=False)
        raw = proj.project_file(TdmsFile.read(io.BytesIO(out["data"]), raw_timestamps=True))
    except Exception as ex:  # noqa
        fails.append((sig("unreadable", exception=type(ex).__name__, classes=sorted(set(rec["cls"].values()))[:3]),
                      dict(bundle, exception="%s: %s" % (type(ex).__name__, ex))))
        return {"n": 1, "keys": [h], "fails": fails, "validated": 1}
    view = rec["view"]
    chans = rec["chans"] if isinstance(rec["chans"], dict) else {}
    cooked, raw = rename_view(cooked, out.get("inv")), rename_view(raw, out.get("inv"))
    for r_ in out.get("refused", ()):
        fails.append((sig("refused-call", what=r_.split(":")[0]), dict(bundle, problem=r_)))
    for p_ in out.get("mutated", ()):
        fails.append((sig("caller-array-modified", cls=rec["cls"].get(p_)), dict(bundle, channel=p_)))
    if cooked.get("version") != version or raw.get("version") != version:
        fails.append((sig("format-version"), dict(bundle, expected=version, observed=cooked.get("version"))))
    if cooked.get("api") or raw.get("api"):
        fails.append((sig("container-protocol"), dict(bundle, problems=cooked.get("api") or raw.get("api"))))
    # structure: groups and channels as the specification's view of the emitted segments
    if cooked["groups"] != view["groups"]:
        fails.append((sig("groups"), dict(bundle, expected=view["groups"], observed=cooked["groups"])))
    gch = view["gchans"] if isinstance(view["gchans"], dict) else {}
    for g in view["groups"]:
        if cooked["gchans"].get(g) != gch.get(g, []):
            fails.append((sig("channel-order"), dict(bundle, group=g, expected=gch.get(g), observed=cooked["gchans"].get(g))))
    if set(cooked["chans"]) != set(chans):
        fails.append((sig("channel-set"), dict(bundle, expected=sorted(chans), observed=sorted(cooked["chans"]))))
    for p, ce in chans.items():
        got = (raw if out["read_mode"].get(p) == "raw" else cooked)["chans"].get(p)
        if got is None:
            continue
        ac = ce["cls"]
        exp = out["exp_data"].get(p, [])
        if len(exp) != ce["len"]:
            raise AssertionError("harness wrote %d values, specification says %d" % (len(exp), ce["len"]))
        probs = []
        if got["len"] != ce["len"]:
            probs.append("len %d, expected %d" % (got["len"], ce["len"]))
        if got.get("ty") not in ce["types"]:
            probs.append("TDMS type %s not in %s" % (got.get("ty"), ce["types"]))
        if "error" in got:
            probs.append(got["error"])
        elif got.get("data") != exp:
            probs.append("values differ")
        elif got.get("dtype") not in out["exp_dtypes"].get(p, {got.get("dtype")}) and ce["len"] > 0:
            probs.append("dtype %s not in %s" % (got.get("dtype"), sorted(out["exp_dtypes"][p])))
        if probs:
            fails.append((sig("channel", cls=ac, what=probs[0].split(" ")[0]),
                          dict(bundle, channel=p, problems=probs, expected=exp[:6], observed=(got.get("data") or [])[:6])))
    # properties: values through the reader, TDMS types through the independent parser
    events = parser.parse(out["data"])
    last_type = {}
    for ev in events:
        for ob in ev.get("objs", []):
            for pr in ob["props"]:
                last_type[(out.get("inv", {}).get(ob["path"], ob["path"]), pr["name"])] = pr["type"]
    props = rec["props"] if isinstance(rec["props"], dict) else {}
    for p, plist in props.items():
        for pe in plist:
            canon, mode, vc = out["prop_exp"][p][pe["name"]]
            if vc != pe["vc"]:
                raise AssertionError("harness and specification disagree on the last value class of %s.%s" % (p, pe["name"]))
            got = (raw if mode == "raw" else cooked)["props"].get(p, {}).get(pe["name"])
            if got != canon:
                fails.append((sig("property-value", vc=vc), dict(bundle, object=p, name=pe["name"], expected=canon,
                                                                   observed=got)))
            if last_type.get((p, pe["name"])) != pe["type"]:
                fails.append((sig("property-type", vc=vc), dict(bundle, object=p, name=pe["name"], expected=pe["type"],
                                                                  observed=last_type.get((p, pe["name"])))))
    for p in view["order"]:
        want = set(pe["name"] for pe in props.get(p, []))
        have = set((cooked["props"].get(p) or {}).keys())
        if want != have:
            fails.append((sig("property-set"), dict(bundle, object=p, expected=sorted(want), observed=sorted(have))))
    return {"n": 1 + len(chans), "keys": [h], "fails": fails, "validated": 1, "obs": obs}


def trace_of(data, idx):
    """bytes -> trace fields for Trace_Writer.tla"""
    def norm(evs):
        out = []
        for ev in evs:
            e = {"pos": ev["pos"], "err": ev.get("error", ""), "tag": ev.get("tag", ""), "toc": ev.get("toc", 0),
                 "version": ev.get("version", 0), "next_off": min(ev.get("next_off", 0), 10 ** 9),
                 "raw_off": min(ev.get("raw_off", 0), 10 ** 9), "meta_parsed": ev.get("meta_parsed", -1),
                 "raw_len": ev.get("raw_len", -1), "meta_crc": ev.get("meta_crc", -1), "objs": []}
            for ob in ev.get("objs", []):
                e["objs"].append({"path": ob["path"], "parent": ob["parent"], "kind": ob["kind"],
                                  "idx_hdr": ob["idx_hdr"], "idx_bytes": ob.get("idx_bytes", 0),
                                  "type": ob.get("type", ""), "dim": ob.get("dim", 0), "n": min(ob.get("n", 0), 10 ** 9),
                                  "total": min(ob.get("total", -1), 10 ** 9)})
            out.append(e)
        return out
    segs = parser.parse(data)
    end = 0
    for ev in segs:
        if "error" not in ev:
            end = ev["pos"] + 28 + ev["next_off"]
    tr = {"segs": norm(segs), "has_index": idx is not None, "index": norm(parser.parse(idx, index=True)) if idx else [],
          "trailing": max(0, len(data) - end) if segs else len(data)}
    return tr


def record_writer_case(case):
    """worker for C08: run the program, parse the written bytes into a trace"""
    rec = case["rec"]
    seed = case["seed"]
    nwrites = sum(1 for c in rec["prog"] if c["call"] == "write")
    if nwrites == 0:
        return {"n": 0, "keys": [], "fails": [], "validated": 0, "trace": None}
    h = zlib.crc32(repr(rec["prog"]).encode())
    mode = (h + seed) % 3          # index_file: off / True (path) / a stream
    target = "path" if mode == 1 else "stream"
    index = mode != 0
    try:
        out = run_program(rec, seed, target=target, index=index, version=4713 if (h // 3) % 2 else 4712)
    except Exception as ex:  # noqa
        import traceback
        return {"n": 1, "keys": [h], "validated": 0, "trace": None,
                "fails": [({"kind": "writer-raised", "exception": type(ex).__name__},
                           {"prog": rec["prog"], "cls": rec["cls"], "exception": traceback.format_exc()[-1500:]})]}
    tr = trace_of(out["data"], out["index"])
    tr["id"] = case["id"]
    tr["info"] = {"prog": rec["prog"], "cls": rec["cls"], "index_mode": ["off", "path", "stream"][mode],
                  "hex": out["data"].hex(), "index_hex": out["index"].hex() if out["index"] else None}
    return {"n": len(tr["segs"]), "keys": [h], "fails": [], "validated": 0, "trace": tr}
