"""C11 - DAQmx raw data is decoded at the declared buffer, stride, offset and type.
MC: TdmsDaqmx (positions inside their buffer row and chunk; truncated final chunk keeps complete rows).
GEN: every enumerated configuration (format-changing / digital-line scalers, 1-2 buffers with padding, 1-2 channels
with 1-2 scalers in one or in two buffers, chunk counts, both byte orders) is encoded with random buffer bytes; expected raw values are the
bytes at the positions the specification computes; eager and lazy reads, every window, chunk streams, and every cut
of the final chunk are compared."""
from ..common import Check
from ..genrun import run_config

RULE = ("configurations: kind fc/dl x byte order x 1-2 raw buffers (width 5, scalers of 1-2 bytes at byte offsets 0/3 or "
        "bit offsets 0/3: padding) x rows per buffer x chunks x 1-2 channels x 1-2 scalers; evaluations = reads; "
        "non-trivial = every configuration; distinct = distinct configurations")

CONFIGS = {
    "quick": [("TdmsDaqmx", "TdmsDaqmx.cfg", {"RowSet": "{1, 3}", "KSet": "{2}"}, 4),
              # digital lines in multi-byte words at unaligned byte offsets (bit offsets 11, 27 in rows of 5 bytes)
              ("TdmsDaqmx", "TdmsDaqmx.cfg", {"Kinds": '{"dl"}', "OffSet": "{3, 11, 27}", "SizeSet": "{1, 2}", "RowSet": "{2}",
                                              "KSet": "{2}", "NBufs": "{1}"}, 2),
              # a wide buffer followed by a narrow one: a cut inside a row of the first must not spill into the second
              ("TdmsDaqmx", "TdmsDaqmx.cfg", {"Kinds": '{"fc"}', "WidthSet": "{2, 7}", "OffSet": "{0}", "SizeSet": "{2}",
                                              "RowSet": "{2, 3}", "KSet": "{2}", "NBufs": "{2}", "MaxChans": "2"}, 1),
              # channels whose two scalers lie in two different raw buffers (of equal length): D19
              ("TdmsDaqmx", "TdmsDaqmx.cfg", {"Split": "TRUE", "NBufs": "{2}", "Kinds": '{"fc"}', "RowSet": "{2}", "KSet": "{2}",
                                              "OffSet": "{0}", "SizeSet": "{2}", "WidthSet": "{3, 5}", "MaxChans": "2"}, 1),
              # packed rows: multi-byte scalers at offsets that are not multiples of their size, in rows whose width is
              ("TdmsDaqmx", "TdmsDaqmx.cfg", {"Kinds": '{"fc"}', "WidthSet": "{8}", "OffSet": "{1, 3}", "SizeSet": "{2, 4}",
                                              "RowSet": "{2}", "KSet": "{2}", "NBufs": "{1}", "MaxChans": "2"}, 2)],
    "thorough": [("TdmsDaqmx", "TdmsDaqmx.cfg", {}, 1),
                 ("TdmsDaqmx", "TdmsDaqmx.cfg", {"Split": "TRUE", "NBufs": "{2}", "RowSet": "{1, 3}", "KSet": "{1, 2}"}, 1),
                 ("TdmsDaqmx", "TdmsDaqmx.cfg", {"WidthSet": "{9}", "OffSet": "{1, 5}", "SizeSet": "{4}", "RowSet": "{2}",
                                                 "KSet": "{3}", "Kinds": '{"fc"}'}, 1),
                 ("TdmsDaqmx", "TdmsDaqmx.cfg", {"WidthSet": "{3}", "OffSet": "{0, 9, 15}", "SizeSet": "{1, 2}",
                                                 "RowSet": "{3}", "KSet": "{2}", "Kinds": '{"dl"}'}, 1)],
}


def run(tier):
    chk = Check("C11", tier)
    for (module, cfg, ov, stride) in CONFIGS[tier]:
        run_config(chk, module, cfg, ov,
                   lambda rec, i, stride=stride: {"rec": rec, "seed": chk.seed, "variant": i % 3, "stride": stride},
                   "harness.daqmx", "replay_daqmx_case",
                   sample_fn=lambda rec: {"cfg": rec["cfg"], "chunkBytes": rec["chunkBytes"], "pos": rec["pos"]},
                   sample_every=997)
    # scale: a segment of more than 2 GiB (sparse file), DAQmx and plain storage
    from ..daqmx import large_sparse_check
    for sig_, b_ in large_sparse_check():
        chk.violation(sig_, b_)
    chk.count(2, [0x2A1B, 0x2A1C])
    chk.validated(2)
    chk.assumptions += ["raw buffer bytes are pseudo-random; expected values are read at the specification's positions "
                        "with an independent fixed-width decode",
                        "a channel whose scalers lie in different raw buffers is generated only with buffers of equal length "
                        "(otherwise the channel has no single length)"]
    return chk.finish("model_checking", RULE)
