"""C15 - byte order of a segment does not change its meaning.
The byte-order flag is an attribute of the ENCODING of a segment only: the specification's view does not depend on
it.  Every generated file is encoded under its own per-segment assignment, the swapped assignment, all little- and
all big-endian; each encoding must read as the specification's view (hence all agree)."""
from ..common import Check
from ..genrun import run_config

RULE = ("TLC enumerates 1-2 segment files over two channels with a byte order chosen per segment (all 2^k "
        "assignments), 7 representative types (every kind) x contiguous/interleaved, and property-carrying files; "
        "each is encoded in 4 byte-order variants; non-trivial = has raw data; distinct = distinct abstract files")

VARIANTS = [None, "swap", "le", "be"]

CONFIGS = {
    "quick": [
        # (rotation 1 turns the seven types into Uint16, DoubleFloat, SingleFloatWithUnit, String, ComplexDoubleFloat,
        # DoubleFloatWithUnit, Int8: every other file uses those)
        ("MC_C15_mix", "MC_C15_mix.cfg", {"MaxSegs": 2}, ["eager"], 2),
        ("MC_C01_props", "MC_C01_props.cfg", {"MaxSegs": 2, "MaxPropObjs": 1}, ["eager"], 3),
        # byte order chosen per segment while indexes are inherited (matches-previous / unlisted / no metadata)
        ("MC_C15_mix", "MC_C15_inherit.cfg", {"MaxSegs": 2, "TypeSet": "c_TypeSetInh", "ObjLists": "c_ObjListsInh",
                                              "Layouts": '{"contig"}', "KVals": "{1}"}, ["eager", "lazy"], 1),
    ],
    "thorough": [
        ("MC_C15_mix", "MC_C15_mix.cfg", {"MaxSegs": 2}, ["eager", "lazy"], 5),
        ("MC_C01_types", "MC_C01_types.cfg", {"MaxSegs": 1}, ["eager", "lazy"], 1),
        ("MC_C01_props", "MC_C01_props.cfg", {"MaxSegs": 2, "MaxPropObjs": 2}, ["eager", "lazy"], 3),
        ("MC_C15_mix", "MC_C15_inherit.cfg", {"MaxSegs": 3, "TypeSet": "c_TypeSetInh", "ObjLists": "c_ObjListsInh",
                                              "Layouts": '{"contig"}', "KVals": "{1}"}, ["eager", "lazy"], 1),
    ],
}


def run(tier):
    chk = Check("C15", tier)
    for (module, cfg, ov, modes, rots) in CONFIGS[tier]:
        run_config(chk, module, cfg, ov,
                   lambda rec, i: {"rec": rec, "seed": chk.seed, "modes": modes, "rot": (i + chk.seed) % rots,
                                   "be_variants": VARIANTS},
                   "harness.segments", "replay_segments_case",
                   sample_fn=lambda rec: {"file": rec["file"], "expected_view": rec["view"]}, sample_every=5003)
    chk.assumptions += ["independent byte encoder harness/enc.py (byte swapping per field: to_disk)"]
    return chk.finish("model_checking", RULE)
