"""C10 - defragmenting a file preserves its content.
MC: TdmsDefragment.DefragPreserves (view of the copy, as the writer's derived behaviour, against the view of the
source) over all enumerated source files.  GEN: every source file is encoded, TdmsWriter.defragment is run (path or
stream destination, with / without index file) and the copy is compared with the source (raw values, raw timestamps,
properties, lengths, types, scaled data) and with the specification's view of the copy."""
from ..common import Check
from ..genrun import run_config

RULE = ("source files = TdmsSegments behaviours over root, a declared and an implied group, three channels (no data / no "
        "data type / property-only objects / fragmented over segments / properties); types Int32, String, TimeStamp, "
        "DoubleFloatWithUnit rotated within width classes; non-trivial = source has raw data; distinct = distinct "
        "source files")

CONFIGS = {
    "quick": [("MC_C10", "MC_C10.cfg", {"MaxSegs": 2, "ObjLists": "c_ObjListsQ", "KVals": "{1}", "NVals": "{2}"}, 4),
              # timestamps (and, rotated, complex doubles) fragmented over segments and chunks
              ("MC_C10", "MC_C10.cfg", {"MaxSegs": 2, "ObjLists": "c_ObjListsQ", "KVals": "{1, 2}", "NVals": "{2}",
                                        "TypeSet": "c_TypeSetBig", "MaxPropObjs": 0}, 2),
              # a channel larger than any internal block size (1 MiB), copied to a stream and to a path; 80001 values is
              # no multiple of anything, 2^17 values is an exact multiple of every power-of-two block length up to it
              ("MC_C10", "MC_C10.cfg", {"MaxSegs": 1, "ObjLists": "c_ObjListsBig", "KVals": "{1}", "NVals": "{80001, 131072}",
                                        "TypeSet": "c_TypeSetBig", "MaxPropObjs": 0}, 2)],
    "thorough": [("MC_C10", "MC_C10.cfg", {"MaxSegs": 2, "ObjLists": "c_ObjListsQ", "KVals": "{1}", "TypeSet": "c_TypeSet",
                                           "MaxPropObjs": 0}, 2),
                 ("MC_C10", "MC_C10.cfg", {"MaxSegs": 2, "ObjLists": "c_ObjListsQ", "KVals": "{1, 2}", "NVals": "{2}"}, 3),
                 # large channels (as in the quick tier, more lengths around the powers of two)
                 ("MC_C10", "MC_C10.cfg", {"MaxSegs": 1, "ObjLists": "c_ObjListsBig", "KVals": "{1}",
                                           "NVals": "{80001, 131072, 65536, 131073, 196608}",
                                           "TypeSet": "c_TypeSetBig", "MaxPropObjs": 0}, 2)],
}


def run(tier):
    chk = Check("C10", tier)
    for (module, cfg, ov, rots) in CONFIGS[tier]:
        run_config(chk, module, cfg, ov,
                   lambda rec, i: {"rec": rec, "seed": chk.seed, "rot": (i + chk.seed) % rots},
                   "harness.defrag", "replay_defrag_case",
                   sample_fn=lambda rec: {"file": rec["file"], "view": rec["view"], "copy": rec["copy"]},
                   sample_every=9973)
    chk.assumptions += ["independent byte encoder for the source files", "DAQmx sources are outside the statement"]
    return chk.finish("model_checking", RULE)
