"""C03 - every way of obtaining a channel's data gives the same data.
Specification: TdmsOpenFile.AccessPaths (which path exists in which mode), ChanStream / FileStream (chunk structure
and offsets), invariant PathsAgree.  GEN: TLC enumerates all two-channel shapes; each is built as a file and every
enabled access path is executed under memmap off/on x raw_timestamps off/on x path/stream, eagerly and lazily."""
from ..common import Check
from ..genrun import run_config

RULE = ("one case = one two-channel file shape (<= MaxSegs3 segments; per segment values per chunk of each channel "
        "0..2, 1-2 chunks, contiguous / interleaved, optional truncated final chunk) with random types incl. string "
        "and timestamp; evaluated = (configuration, mode, channel, access path) reads; non-trivial = file has data; "
        "distinct = distinct shapes")


def run(tier):
    chk = Check("C03", tier)
    ov = {"MaxSegs3": 2 if tier == "quick" else 3}
    run_config(chk, "MC_C03", "MC_C03.cfg", ov,
               lambda rec, i: {"rec": rec, "seed": chk.seed, "variant": i % 11, "all_configs": tier == "thorough" and i % 4 == 0},
               "harness.access", "replay_access_case",
               sample_fn=lambda rec: {"shape": rec["shape"], "chanx": rec["chanx"], "file": rec["file"][:3],
                                      "paths": [p["path"] for p in rec["paths"]]}, sample_every=401)
    chk.assumptions += ["non-raw timestamp reads are compared between access paths (C12 judges the conversion)",
                        "scaled and DAQmx channels are covered by C13/C14/C11 with the same access paths"]
    return chk.finish("model_checking", RULE)
