"""C02 - segment metadata inheritance never changes what is read.
MC: TdmsSegments invariants over all valid encodings; GEN: every reachable encoded file replayed into the real
reader (eager and lazy) and compared with the specification's explicit view; forbidden encodings must raise."""
import json

from .. import tlc
from ..common import Check, Replayer, absorb, Machinery

RULE = ("TLC enumerates every sequence of <= MaxSegs explicit segments x every encoding the rewrite rules R1-R4 allow "
        "(plus one forbidden encoding as last segment); each reachable state is one file; a case is non-trivial if at "
        "least one segment carries raw data; distinct = distinct encoded files")

CONFIGS = {
    "quick": [("MC_C02_q", "MC_C02_q.cfg", {"MaxSegs": 2}, ["eager", "lazy"], 4)],
    "thorough": [("MC_C02_q", "MC_C02_q.cfg", {"MaxSegs": 3}, ["eager", "lazy"], 4)],
}


def run_config(chk, module, cfg, overrides, modes, rots, worker="replay_segments_case", be_variants=None):
    rp = Replayer("harness.segments", worker)
    ov = dict(overrides)
    ov["GenPrint"] = "TRUE"
    cnt = [0]

    def on_gen(rec):
        cnt[0] += 1
        if cnt[0] % 997 == 1:
            chk.sample({"file": rec["file"], "expected_view": rec["view"], "status": rec["status"]})
        rp.add({"rec": rec, "seed": chk.seed, "modes": modes, "rot": (cnt[0] + chk.seed) % rots,
                "be_variants": be_variants})

    res = tlc.run(module, cfg, name=chk.prop + "-" + module, overrides=ov, on_gen=on_gen)
    results = rp.finish()
    chk.add_tlc("%s %s" % (cfg, json.dumps(overrides, sort_keys=True)), res)
    if res.violated:
        chk.model_violation(cfg, res)
    if res.gen != res.distinct:
        raise Machinery("GEN cases (%d) != distinct states (%d)" % (res.gen, res.distinct))
    absorb(chk, results)
    return res


def run(tier):
    chk = Check("C02", tier)
    for (module, cfg, ov, modes, rots) in CONFIGS[tier]:
        run_config(chk, module, cfg, ov, modes, rots)
    chk.assumptions += ["independent byte encoder harness/enc.py lays out what the specification's encoded file says",
                        "TLC explores the bounded model exhaustively"]
    return chk.finish("model_checking", RULE)
