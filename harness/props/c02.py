"""C02 - segment metadata inheritance never changes what is read.
MC: TdmsSegments invariants over all valid encodings; GEN: every reachable encoded file replayed into the real
reader (eager and lazy) and compared with the specification's explicit view; forbidden encodings must raise."""
from ..common import Check
from ..genrun import run_config

RULE = ("TLC enumerates every sequence of <= MaxSegs explicit segments x every encoding the rewrite rules R1-R4 allow "
        "(plus one forbidden encoding as last segment); each reachable state is one file; a case is non-trivial if at "
        "least one segment carries raw data; distinct = distinct encoded files")

CONFIGS = {
    "quick": [("MC_C02_q", "MC_C02_q.cfg", {"MaxSegs": 2}, ["eager", "lazy"], 4),
              # string channels: the index's byte size changes while the count stays (R1/R2 compare the whole index)
              ("MC_C02_q", "MC_C02_str.cfg", {"MaxSegs": 2}, ["eager", "lazy"], 1),
              # inheritance across segments of different byte order
              ("MC_C02_q", "MC_C02_be.cfg", {"MaxSegs": 2}, ["eager", "lazy"], 4),
              # a channel restated with another type (forbidden), over types with and without a NumPy counterpart
              ("MC_C02_q", "MC_C02_q.cfg", {"MaxSegs": 2, "NVals": "{1}", "KVals": "{1}", "TypeSet": "c_TypeSetTC",
                                            "Width": "c_WidthTC", "Unsized": "c_UnsizedStr", "ObjLists": "c_ObjListsStr",
                                            "Forbidden": "c_ForbiddenTC"}, ["eager", "lazy"], 1),
              # inheritance across segments of different raw data layout (interleaved / contiguous)
              ("MC_C02_q", "MC_C02_q.cfg", {"MaxSegs": 2, "NVals": "{2}", "KVals": "{1, 2}", "Layouts": '{"contig", "il"}'},
               ["eager", "lazy"], 4),
              # three segments (an emptied or re-started object list in the middle) over a small alphabet
              ("MC_C02_q", "MC_C02_q.cfg", {"MaxSegs": 3, "NVals": "{2}", "KVals": "{1}", "Forbidden": "{}"},
               ["eager", "lazy"], 4)],
    "thorough": [("MC_C02_q", "MC_C02_q.cfg", {"MaxSegs": 3}, ["eager", "lazy"], 4),
                 ("MC_C02_q", "MC_C02_q.cfg", {"MaxSegs": 3, "NVals": "{2}", "KVals": "{1, 2}", "Layouts": '{"contig", "il"}'},
                  ["eager", "lazy"], 4),
                 ("MC_C02_q", "MC_C02_str.cfg", {"MaxSegs": 2, "NVals": "{0, 1, 2}"}, ["eager", "lazy"], 1),
                 ("MC_C02_q", "MC_C02_be.cfg", {"MaxSegs": 3, "KVals": "{1}"}, ["eager", "lazy"], 4)],
}


def sample_fn(rec):
    return {"file": rec["file"], "expected_view": rec["view"], "status": rec["status"]}


# beyond the exhaustive bound: random walks of the same specification over longer histories (every prefix is a file)
WALKS = {
    "quick": [("MC_C02_q", "MC_C02_be.cfg", {"MaxSegs": 7, "KVals": "{1, 2}"}, ["eager", "lazy"], 4, 16, 8)],
    "thorough": [("MC_C02_q", "MC_C02_be.cfg", {"MaxSegs": 10, "KVals": "{1, 2}"}, ["eager", "lazy"], 4, 320, 11),
                 ("MC_C02_q", "MC_C02_str.cfg", {"MaxSegs": 8}, ["eager", "lazy"], 1, 160, 9),
                 # one very long history (more than 100 segments) over a tiny alphabet, single worker
                 ("MC_C02_q", "MC_C02_be.cfg", {"MaxSegs": 110, "NVals": "{1}", "KVals": "{1}", "ObjLists": "c_ObjListsStr"},
                  ["eager", "lazy"], 4, 1, 111)],
}


def run(tier):
    chk = Check("C02", tier)
    for (module, cfg, ov, modes, rots) in CONFIGS[tier]:
        # one case in 97 is replayed with every channel cloned 260 times (more than 255 objects per segment)
        run_config(chk, module, cfg, ov,
                   lambda rec, i: {"rec": rec, "seed": chk.seed, "modes": modes, "rot": (i + chk.seed) % rots,
                                   "widen": 260 if (i + chk.seed) % 97 == 0 else 0,
                                   "manyprops": (i + chk.seed) % 97 == 1, "metapad": (i // 7) % 11 if i % 5 == 0 else 0, "repeat": 130 if (i + chk.seed) % 97 == 2 else 0,
                                   # the DAQmx twin of the same encoded file (one raw buffer and scaler per channel)
                                   "daqmx": (i + chk.seed) % 97 != 0},
                   "harness.segments", "replay_segments_case", sample_fn=sample_fn)
    for (module, cfg, ov, modes, rots, walks, depth) in WALKS[tier]:
        run_config(chk, module, cfg, ov,
                   lambda rec, i: {"rec": rec, "seed": chk.seed, "modes": modes, "rot": (i + chk.seed) % rots,
                                   "daqmx": True},
                   "harness.segments", "replay_segments_case", sample_fn=sample_fn, simulate=walks, depth=depth,
                   expect_all_states=False, workers=(1 if walks == 1 else 16),
                   label="%s %s simulate %d walks of depth %d" % (cfg, ov, walks, depth))
    # TRACE (code -> spec): the repository's own scenario / data files, parsed by the independent structural parser,
    # are run through the reader model (Trace_Segments.tla) and compared with what TdmsFile.read observed
    from ..segtrace import run_trace
    run_trace(chk, "C02-segtrace")
    chk.assumptions += ["independent byte encoder harness/enc.py lays out what the specification's encoded file says",
                        "TLC explores the bounded model exhaustively"]
    return chk.finish("model_checking", RULE)
