"""C19 - partial reads touch only the part of the file they need.
MC: TdmsData.FootprintBounded (the algorithm model fetches only chunks overlapping the request).
TRACE (code -> spec): every shape TLC enumerates is built as a file and opened lazily over a recording stream; all
windows and integer indices are executed and the (position, size) of every read is logged; Trace_Footprint.tla
accepts a trace iff every step's bytes lie inside the request's allowed regions."""
import json
import zlib

from .. import tlc, trace
from ..common import Check, Replayer, Machinery
from ..genrun import run_config

RULE = ("shapes as in C04 (TdmsData); one trace per shape = all windows (offset 0..len+2 x length None/0..len+2) and "
        "integer indices (ascending, descending, strided: cache hits and misses) on one open file; a trace is "
        "non-trivial if the channel has data; distinct = distinct shapes")

CONFIGS = {
    "quick": [("MC_C04", "MC_C04.cfg", {"MaxSegs": 3, "NVals": "c_NValsQ", "KVals": "c_KValsQ", "MaxSliceLen": 0,
                                        "Extra": 1})],
    "thorough": [("MC_C04", "MC_C04.cfg", {"MaxSegs": 3, "MaxSliceLen": 0, "Extra": 1})],
}


def run(tier):
    chk = Check("C19", tier)
    for (module, cfg, ov) in CONFIGS[tier]:
        traces = []
        rp = Replayer("harness.datafile", "record_footprint_case", batch=20)
        ov2 = dict(ov)
        ov2["GenPrint"] = "TRUE"
        cnt = [0]

        def on_gen(rec):
            cnt[0] += 1
            rp.add({"rec": rec, "seed": chk.seed, "variant": (zlib.crc32(json.dumps(rec, sort_keys=True).encode()) >> 3) % 5, "id": cnt[0]})

        res = tlc.run(module, cfg, name="C19-" + module, overrides=ov2, on_gen=on_gen)
        chk.add_tlc("%s %s (MC: FootprintBounded, AlgorithmCorrect)" % (cfg, ov), res)
        if res.violated:
            chk.model_violation(cfg, res)
        for r in rp.finish():
            if "machinery" in r:
                raise Machinery(r["machinery"])
            for sig_, b_ in r.get("fails", ()):
                chk.violation(sig_, b_)
            if r.get("trace"):
                traces.append(r["trace"])
                chk.count(r["n"], r["keys"])
        # validate in batches of traces per JVM
        B = 1500
        for i in range(0, len(traces), B):
            batch = traces[i:i + B]
            slim = [{k: t[k] for k in ("id", "il", "segs", "lay", "steps")} for t in batch]
            refined = set()
            accepted, where, tres = trace.validate("Trace_Footprint", "Trace_Footprint.cfg", slim, "C19-trace",
                                                   extra_marks={"REFINED": refined})
            rf = chk.cov.setdefault("refinement", {"what": "chunk selection (chunk_offset, num_chunks per segment) logged "
                                                   "by the NPTDMS_VERIF hook vs the algorithm model's fetch set "
                                                   "(diagnostic only)", "traces": 0, "traces_refined_stepwise": 0})
            rf["traces"] += len(batch)
            rf["traces_refined_stepwise"] += len(refined)
            chk.cov["tlc_runs"].append({"config": "Trace_Footprint batch %d" % (i // B), "traces": len(batch),
                                        "accepted": len(accepted), "distinct_states": tres.distinct,
                                        "wall_s": round(tres.wall, 2)})
            chk.cov["states"] += tres.distinct
            chk.cov["transitions"] += tres.generated
            chk.validated(len(accepted))
            for t in batch:
                if str(t["id"]) not in accepted:
                    step = where.get(str(t["id"]))
                    st = t["steps"][step - 1] if step and step <= len(t["steps"]) else None
                    chk.violation({"kind": "footprint", "il": t["il"], "op": st["kind"] if st else "?",
                                   "trunc": bool(t["segs"][-1]["pres"] and t["segs"][-1]["last"] < t["segs"][-1]["n"])},
                                  {"trace_id": t["id"], "segs": t["segs"], "il": t["il"], "lay": t["lay"],
                                   "info": t["info"], "failing_step_index": step, "failing_step": st})
            if batch and i == 0:
                t = batch[len(batch) // 2]
                chk.sample({"segs": t["segs"], "il": t["il"], "lay": t["lay"], "steps": t["steps"][:4]})
    chk.assumptions += ["byte layout (segment position, data position, chunk size, channel offset in chunk) is logged by the "
                        "independent encoder; reads are logged by a recording stream passed to TdmsFile.open",
                        "Trace_Footprint.tla evaluates TdmsData.Overlapping on the logged shape"]
    return chk.finish("model_checking", RULE)
