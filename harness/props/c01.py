"""C01 - reading returns exactly the content the file encodes.
Three exhaustive slices of TdmsSegments under the explicit encoding (structure / types / properties); every
reachable file (= every prefix) is encoded by the independent encoder, read with TdmsFile.read (and open in
thorough) and compared with the specification's ExplicitView, values bit-exact."""
from ..common import Check
from ..genrun import run_config

RULE = ("each TLC state is one well-formed file (sequence of explicit segments); slices: structure (object lists in "
        "many orders over root/2 groups/3 channels), types (all 17x17 type pairs x layout x chunks x byte order), "
        "properties (updates on any object, last write wins), order x properties (which listed objects carry a "
        "property); non-trivial = at least one segment with raw data; "
        "distinct = distinct abstract files")

CONFIGS = {
    "quick": [
        ("MC_C01_struct", "MC_C01_struct.cfg", {"MaxSegs": 2, "NVals": "c_NValsQ"}, ["eager"], 4),
        ("MC_C01_types", "MC_C01_types.cfg", {"MaxSegs": 1}, ["eager", "lazy"], 1),
        ("MC_C01_props", "MC_C01_props.cfg", {"MaxSegs": 2, "MaxPropObjs": 1}, ["eager"], 3),
        ("MC_C01_struct", "MC_C01_struct.cfg", {"MaxSegs": 2, "ObjLists": "c_ObjListsPQ", "PropNames": "c_PropNamesP", "PropVals": "c_PropValsP", "MaxPropObjs": 2, "NVals": "c_NValsP", "KVals": "c_KValsP"}, ["eager", "lazy"], 4),
    ],
    "thorough": [
        ("MC_C01_struct", "MC_C01_struct.cfg", {"MaxSegs": 2}, ["eager", "lazy"], 4),
        ("MC_C01_types", "MC_C01_types.cfg", {"MaxSegs": 1}, ["eager", "lazy", "meta"], 1),
        ("MC_C01_props", "MC_C01_props.cfg", {"MaxSegs": 2, "MaxPropObjs": 2}, ["eager", "lazy", "meta"], 3),
        ("MC_C01_struct", "MC_C01_struct.cfg", {"MaxSegs": 2, "ObjLists": "c_ObjListsP", "PropNames": "c_PropNamesP", "PropVals": "c_PropValsP", "MaxPropObjs": 3, "NVals": "c_NValsP", "KVals": "c_KValsP"}, ["eager", "lazy", "meta"], 4),
    ],
}


def sample_fn(rec):
    return {"file": rec["file"], "expected_view": rec["view"]}


def run(tier):
    chk = Check("C01", tier)
    for (module, cfg, ov, modes, rots) in CONFIGS[tier]:
        run_config(chk, module, cfg, ov,
                   lambda rec, i: {"rec": rec, "seed": chk.seed, "modes": modes, "rot": (i + chk.seed) % rots,
                                   "widen": 260 if (i + chk.seed) % 499 == 0 else 0,
                                   "manyprops": (i + chk.seed) % 499 == 1, "metapad": (i // 7) % 11 if i % 5 == 0 else 0, "repeat": 130 if (i + chk.seed) % 499 == 2 else 0},
                   "harness.segments", "replay_segments_case", sample_fn=sample_fn, sample_every=20011)
    # scale: one interleaved segment larger than any internal batch size (built with struct / NumPy)
    from ..segments import big_interleaved_check
    big = big_interleaved_check()
    chk.count(5, [0x7B16])
    chk.validated(1)
    for sig_, b_ in big:
        chk.violation(sig_, b_)
    # TRACE (code -> spec): the repository's own scenario / data files, parsed by the independent structural parser,
    # are run through the reader model (Trace_Segments.tla) and compared with what TdmsFile.read observed
    from ..segtrace import run_trace
    run_trace(chk, "C01-segtrace")
    chk.assumptions += ["independent byte encoder harness/enc.py and projection harness/proj.py",
                        "values concretised per type by harness/enc.value (extremes first, then pseudo-random)"]
    return chk.finish("model_checking", RULE)
