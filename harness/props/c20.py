"""C20 - npTDMS closes the files it opened, only those, and fails loudly afterwards.
MC: TdmsLifecycle - all construct / read / close / read-after-close behaviours over source x index situation x fault
stage, and the writer's with-block: NoLibraryFd, OnlyDataWhileLazy, ReadAfterCloseRaises.  GEN: every behaviour is
replayed with a (mal)formed input built for its fault; after every step /proc/self/fd is inspected for descriptors on
the scratch directory's .tdms / .tdms_index files (API objects and exceptions kept referenced), caller streams
(BytesIO and real file objects) are checked for .closed."""
from ..common import Check
from ..genrun import run_config

RULE = ("case = (source path/stream, index none/matching/mismatching/index-only, fault none/bad tag/bad tag in 2nd "
        "segment/unknown type/type change/matches-previous for unseen object) x history of up to MaxHist steps of "
        "read, read_metadata, open, data read, close, with-exit, read after close, writer with-block (normal / raising "
        "body); non-trivial = at least two steps; distinct = distinct (input, history)")


def run(tier):
    chk = Check("C20", tier)
    ov = {"MaxHist": 4 if tier == "quick" else 6}
    nvar = 3 if tier == "quick" else 6
    for v in range(nvar):
        run_config(chk, "TdmsLifecycle", "TdmsLifecycle.cfg", ov,
                   lambda rec, i, v=v: {"rec": rec, "seed": chk.seed, "variant": v},
                   "harness.lifecycle", "replay_lifecycle_case", sample_fn=lambda rec: rec, sample_every=97,
                   expect_all_states=False, label="TdmsLifecycle.cfg %s variant %d" % (ov, v))
    chk.assumptions += ["a raising TdmsFile.open(path) is outside the statement (descriptor released by garbage collection "
                        "only): observed, not asserted", "memory-map backing files are not .tdms files"]
    return chk.finish("model_checking", RULE)
