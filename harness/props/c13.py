"""C13 - scaled data is the dataflow evaluation of the NI_Scale definitions.
Specification: TdmsScaling (Eval over the scale graph, lookup channel -> group -> file, status / unsupported type
disabling a level, number of scales given or inferred).  GEN: every enumerated (raw type, graph, placement, count
given/inferred) is written as NI_Scale properties by the independent encoder and read eagerly and lazily, in full,
windowed, sliced, chunked and indexed; raw data is snapshotted before and after."""
from ..common import Check
from ..genrun import run_config

RULE = ("case = (raw numeric type, scale graph of 1..MaxScales scales over Linear / Polynomial (0-4 coefficients) / Table "
        "(increasing and decreasing) / no-op / Add / Subtract with every wiring to raw data or earlier scales, placement "
        "on channel / group / root with shadowing levels, NI_Number_Of_Scales given or inferred); plus sensor scales (RTD / thermocouple / thermistor / strain, alone and with a "
        "linear scale) for purity, windows and dtype only; values are judged "
        "when every node is representable in its dtype and no sensor scale is involved; non-trivial = a scaling applies; distinct = distinct cases")

CONFIGS = {
    "quick": [("TdmsScaling", "TdmsScaling.cfg", {"MaxScales": 2, "RawTypes": '{"int16", "uint8", "float32"}'}),
              ("TdmsScaling", "TdmsScaling.cfg", {"MaxScales": 1, "RawTypes": '{"int32", "float64"}', "Shadow": "{TRUE}",
                                                  "UnaryKinds": '{"Linear", "NoOp"}', "BinaryKinds": "{}"}),
              # levels that define scalings of different sizes (a level is taken whole, never merged with another)
              ("TdmsScaling", "TdmsScaling.cfg", {"MaxScales": 2, "RawTypes": '{"int16"}', "Shadow": "{TRUE}",
                                                  "UnaryKinds": '{"Linear"}', "BinaryKinds": '{"Add"}'}),
              # DAQmx: two raw scalers (ids 0, 1) of differing types and up to two scales stacked on them
              ("TdmsScaling", "TdmsScaling.cfg", {"MaxScales": 1, "RawTypes": '{"int16"}', "UnaryKinds": '{"Linear", "NoOp"}',
                                                  "Levels": '{"channel"}', "DaqTypes": '{"int16", "uint8", "float32"}',
                                                  "MaxDaqScales": 2}),
              # sensor scales (RTD, thermocouple, thermistor, strain) on raw data of the type they compute in (float64: an
              # astype without a copy would let them work in place) and on narrower types, alone and feeding / fed by a
              # linear scale: evaluated for purity, windows and dtype; values are C17/C18's subject and not judged
              ("TdmsScaling", "TdmsScaling.cfg", {"MaxScales": 2, "RawTypes": '{"float64", "float32", "int16"}',
                                                  "UnaryKinds": '{"Sensor", "Linear"}', "BinaryKinds": "{}",
                                                  "Levels": '{"channel"}'}),
              # a chain of 12 scales (more scales than one digit), count given and inferred from the property names
              ("TdmsScaling", "TdmsScaling.cfg", {"MaxScales": 1, "RawTypes": '{"int16"}', "UnaryKinds": '{"NoOp"}',
                                                  "BinaryKinds": "{}", "LongChains": "{11, 12}"})],
    "thorough": [("TdmsScaling", "TdmsScaling.cfg", {"MaxScales": 1, "RawTypes": '{"int16"}', "UnaryKinds": '{"Linear", "Polynomial", "NoOp"}',
                                                     "Levels": '{"channel"}', "DaqTypes": '{"int16", "uint8", "int32", "float32", "uint64"}',
                                                     "MaxDaqScales": 2}),
                 ("TdmsScaling", "TdmsScaling.cfg", {"MaxScales": 2, "RawTypes": '{"int8", "int16", "int32", "int64", '
                                                     '"uint8", "uint16", "uint32", "uint64", "float32", "float64"}'}),
                 ("TdmsScaling", "TdmsScaling.cfg", {"MaxScales": 3, "RawTypes": '{"int16"}',
                                                     "UnaryKinds": '{"Linear", "Table"}', "Levels": '{"channel"}'}),
                 ("TdmsScaling", "TdmsScaling.cfg", {"MaxScales": 1, "RawTypes": '{"int32", "float64", "uint16"}',
                                                     "Shadow": "{TRUE}"}),
                 # sensor scales, purity / windows / dtype only (see the quick tier), all raw types
                 ("TdmsScaling", "TdmsScaling.cfg", {"MaxScales": 2, "RawTypes": '{"float64", "float32", "int16", "int32", '
                                                     '"uint8", "uint64"}', "UnaryKinds": '{"Sensor", "Linear"}',
                                                     "BinaryKinds": "{}", "Levels": '{"channel"}'})],
}


def run(tier):
    chk = Check("C13", tier)
    for (module, cfg, ov) in CONFIGS[tier]:
        run_config(chk, module, cfg, ov, lambda rec, i: {"rec": rec, "seed": chk.seed},
                   "harness.scaling", "replay_scaling_case",
                   sample_fn=lambda rec: rec, sample_every=4001, timeout=1500)
    chk.assumptions += ["coefficients, table points and raw data are small integers, so float64 evaluation is exact",
                        "integer wrap-around of Add/Subtract on raw unsigned data is not judged (NodeOK filter)",
                        "DAQmx scaler inputs by id are exercised in C11 (output = last scaler)"]
    return chk.finish("model_checking", RULE)
