"""C09 - a matching index file is transparent.
MC: TdmsIndexFile - the metadata walk over the index stream with position translation keeps the same segments, chunk
counts and final-chunk lengths as the walk over the data file, for every cut of the data file; index alone = complete
structure.  GEN: every enumerated file on a real scratch directory with / without `<name>.tdms_index` (produced by
the independent encoder, and by TdmsWriter where writer-producible) x {read, open, read_metadata}; the index alone
(path and stream) must give the same metadata and refuse data reads."""
from ..common import Check
from ..genrun import run_config

RULE = ("files of 1..2 segments over two channels (fixed-width and string, 1-2 chunks, contiguous / interleaved, "
        "metadata-less last segment, marker or explicit offset) x every cut (MC); GEN: every file with index produced "
        "by the encoder and by TdmsWriter x 3 APIs + index-only via path and stream; non-trivial = every file; "
        "distinct = distinct files")

CONFIGS = {
    "quick": [("MC_C09", "MC_C09.cfg", {"MaxSegs6": 2, "Widths": "{4, 0}", "NVals6": "{2}", "KVals6": "{1, 2}"})],
    "thorough": [("MC_C09", "MC_C09.cfg", {"MaxSegs6": 2, "Widths": "{1, 8, 0}", "NVals6": "{1, 2}", "KVals6": "{1, 2}"})],
}


def run(tier):
    chk = Check("C09", tier)
    for (module, cfg, ov) in CONFIGS[tier]:
        def make(rec, i):
            cuts = sorted(set(p[2] for p in rec["pos"]) | set(p[1] + 1 for p in rec["pos"]))
            cuts = [c for c in cuts if 4 <= c < rec["fileLen"]][:3]
            slim = {"file": rec["file"], "fileLen": rec["fileLen"], "pos": rec["pos"]}
            return {"rec": slim, "seed": chk.seed, "variant": i % 5, "cuts": cuts}
        run_config(chk, module, cfg, ov, make, "harness.indexfile", "replay_index_case",
                   sample_fn=lambda rec: {"file": rec["file"], "fileLen": rec["fileLen"], "pos": rec["pos"]},
                   sample_every=251, expect_all_states=False)
    chk.assumptions += ["index produced by the independent encoder (lead-in with TDSh + metadata per segment)",
                        "index-only open of a file whose last lead-in carries the length-unknown marker is outside the "
                        "statement (lengths cannot be known) and not judged",
                        "a truncated data file beside the index of the complete file is not a matching index: observed only"]
    return chk.finish("model_checking", RULE)
