"""C04 - windows, slices and indices mean what they mean on the full array.
MC: TdmsData.AlgorithmCorrect (the algorithm model of read_raw_data_for_channel/_read_slice/
read_channel_chunk_for_index equals Python/NumPy indexing) over all shapes x requests.
GEN: every shape printed by TLC with all its requests and abstract results is built as a real file (second channel,
random types, layout, byte order, three ways of being absent) and every request is executed lazily and eagerly."""
from ..common import Check
from ..genrun import run_config

RULE = ("a shape = per-segment (present, values per chunk, chunks, values in final chunk) for <= MaxSegs segments x "
        "layout; requests = all (offset,length) with 0<=offset<=len+2, length None or 0..len+2, all slices with "
        "bounds in [-len-2,len+2] or None and steps in {None,+-1,+-2,+-3,0} for len<=MaxSliceLen, all integer "
        "indices in [-len-2,len+2]; each TLC state is one (shape, request); non-trivial = channel has data; "
        "distinct = distinct shapes replayed; plus long shapes <<segments, cut, n1, n2>> (c_LongQ / c_Long in MC_C04.tla) "
        "with a sparse request set around the head and the last 45 values")

CONFIGS = {
    "quick": [("MC_C04", "MC_C04.cfg", {"MaxSegs": 2, "NVals": "c_NValsQ", "KVals": "c_KValsQ", "MaxSliceLen": 3},
               ["lazy", "eager"], None),
              # three segments (a channel absent from an intermediate segment needs them) over a smaller alphabet
              ("MC_C04", "MC_C04.cfg", {"MaxSegs": 3, "NVals": "c_NValsQ", "KVals": "c_KValsQ", "MaxSliceLen": 0,
                                        "Extra": 1}, ["lazy", "eager"], None),
              # one long file (101 segments, two channels whose tables differ in the last segment only)
              ("MC_C04", "MC_C04.cfg", {"MaxSegs": 0, "Trunc": "FALSE", "MaxSliceLen": 0, "LongSpecs": "c_LongQ"},
               ["lazy", "eager"], None)],
    "thorough": [("MC_C04", "MC_C04.cfg", {"MaxSegs": 3, "MaxSliceLen": 4}, ["lazy", "eager"], None),
                 ("MC_C04", "MC_C04.cfg", {"MaxSegs": 4, "NVals": "c_NValsQ", "KVals": "c_KValsQ", "MaxSliceLen": 0,
                                           "Extra": 1}, ["lazy", "eager"], None),
                 ("MC_C04", "MC_C04.cfg", {"MaxSegs": 0, "Trunc": "FALSE", "MaxSliceLen": 0, "LongSpecs": "c_Long"},
                  ["lazy", "eager"], None)],
}


def run(tier):
    chk = Check("C04", tier)
    for (module, cfg, ov, modes, sim) in CONFIGS[tier]:
        def make(rec, i, modes=modes):
            return {"rec": rec, "seed": chk.seed, "modes": modes, "variant": i % 5}
        run_config(chk, module, cfg, ov, make, "harness.datafile", "replay_data_case",
                   sample_fn=lambda rec: {"shape": rec["shape"], "len": rec["len"], "cases": rec["cases"][:3]},
                   sample_every=499, expect_all_states=False, simulate=sim, depth=2 if sim else None)
    chk.assumptions += ["independent byte encoder; Python slice semantics transcribed in TdmsData.SliceIndices",
                        "GEN lines are printed once per shape and carry every request of that shape"]
    return chk.finish("model_checking", RULE)
