"""C12 - timestamps round-trip exactly and convert to datetime64 within one unit.
Specification: TdmsTime over BigNat (exact rational time with limb arithmetic).  TRACE (code -> spec): the harness
records from the real code (a) datetime64[us] -> written (seconds, fractions) -> value read back, for sub-second
microsecond values at several seconds incl. pre-1904 ones; (b) (seconds, fractions) -> as_datetime64 at s/ms/us/ns,
scalar and array, for fractions at and next to unit boundaries, sorted; (c) raw timestamps through write, read and
defragment; (d) time_track for exactly representable offsets / increments.  TLC validates every record against the
exact definitions (Trace_Time.tla)."""
from .. import trace
from ..common import Check

RULE = ("records: roundtrip = one microsecond datetime; convert = one (seconds, fractions, resolution) with scalar and "
        "array result; raw = one raw timestamp through write/read/defragment; track = one waveform channel; "
        "non-trivial = every record; distinct = distinct records (inputs are enumerated without repetition)")


def run(tier):
    import sys
    from .. import timecheck as tc
    chk = Check("C12", tier)
    seed = chk.seed
    traces = []
    nrec = 0
    # (a) round trip of microsecond datetimes
    if tier == "quick":
        us_sets = [list(range((seed + j) % 16, 10 ** 6, 16)) for j in range(1)]
        secs = [3 * 10 ** 9 + seed, -5]
        # neighbours of the values the float conversion is known to be fragile for: multiples of 4146 +- 1
        us_sets.append(sorted(set(v for k in range(0, 10 ** 6, 4146) for v in (k - 1, k, k + 1) if 0 <= v < 10 ** 6)))
    else:
        us_sets = [list(range(0, 10 ** 6))]
        secs = [3 * 10 ** 9 + seed, -5, 0, 2 ** 32 + 7]
    tid = 0
    for us in us_sets:
        for sec in secs:
            B = 2000
            for i in range(0, len(us), B):
                tid += 1
                recs = tc.roundtrip_records(us[i:i + B], [sec])
                traces.append({"id": tid, "recs": recs})
                nrec += len(recs)
    # (a') the same through the writer's channel-data path, end to end (pre-1904 seconds included)
    wus = [4146, 493, 986, 999999, 1, 500000, 0, 123457] + [(seed * 31 + j * 7919) % 10 ** 6 for j in range(120)]
    tid += 1
    recs = tc.writer_channel_records(wus, [3 * 10 ** 9 + seed, -5, -3 * 10 ** 8, 0])
    traces.append({"id": tid, "recs": recs})
    nrec += len(recs)
    # (b) conversions at every resolution
    for res, S in tc.UNITS.items():
        ks = [0, 1, 2, S // 2, S - 1, S - 2, S // 3] + [(seed * 7919 + j * 104729) % S for j in range(40 if tier == "quick" else 400)]
        fr = tc.boundary_fractions(S, sorted(set(k for k in ks if 0 <= k < S)))
        secs2 = [0, 1, 59, 3 * 10 ** 9, 4 * 10 ** 9 + 1] + ([-1, -86400, -(2 ** 31)] if res != "ns" else [])
        recs = tc.convert_records(res, sorted(secs2), fr)
        B = 3000
        for i in range(0, len(recs), B):
            tid += 1
            traces.append({"id": tid, "recs": recs[max(0, i - 1):i + B]})
        nrec += len(recs)
    # (c) raw timestamps, (d) time_track, (c') big-endian raw timestamp files, (b') conversions as a file hands them out
    # (timestamp properties and channel values read with raw_timestamps=False)
    def record(fn, *a):
        """run a recorder; an exception raised inside the library is a finding about the library, not about the check"""
        import os
        import traceback
        try:
            return fn(*a)
        except Exception as ex:  # noqa
            frames = traceback.extract_tb(ex.__traceback__)
            if not any(os.sep + "nptdms" + os.sep in fr.filename for fr in frames):
                raise
            chk.violation({"kind": "time", "record": fn.__name__, "what": "library-raised", "exception": type(ex).__name__},
                          {"recorder": fn.__name__, "args": [repr(x) for x in a], "traceback": traceback.format_exc()[-2000:]})
            return []
    for fn, args in ((tc.raw_records, (seed,)), (tc.track_records, (seed,)), (tc.be_file_raw_records, (seed,)),
                     (tc.file_convert_records, (seed, "read")), (tc.file_convert_records, (seed, "open"))):
        recs = record(fn, *args)
        if recs:
            tid += 1
            traces.append({"id": tid, "recs": recs})
            nrec += len(recs)
    chk.count(nrec, range(nrec))
    # validate in batches of at most ~250 000 records per JVM (the deserialised traces live in TLC's heap)
    accepted, where = set(), {}
    batch, size, batches = [], 0, []
    for t in traces:
        batch.append(t)
        size += len(t["recs"])
        if size >= 250000:
            batches.append(batch)
            batch, size = [], 0
    if batch:
        batches.append(batch)
    for bi, bt in enumerate(batches):
        slim = [{"id": t["id"], "recs": [{k: v for k, v in r.items() if k != "dbg"} for r in t["recs"]]} for t in bt]
        acc, wh, tres = trace.validate("Trace_Time", "Trace_Time.cfg", slim, "C12-trace", timeout=3000)
        accepted |= acc
        where.update(wh)
        chk.cov["tlc_runs"].append({"config": "Trace_Time batch %d" % bi, "traces": len(bt),
                                    "records": sum(len(t["recs"]) for t in bt), "accepted": len(acc),
                                    "distinct_states": tres.distinct, "wall_s": round(tres.wall, 1)})
        chk.cov["states"] += tres.distinct
        chk.cov["transitions"] += tres.generated
    chk.validated(len(accepted))
    for t in traces:
        if str(t["id"]) not in accepted:
            step = where.get(str(t["id"]))
            r = t["recs"][step - 1] if step and step <= len(t["recs"]) else None
            chk.violation({"kind": "time", "record": r["kind"] if r else "?",
                           "what": (r["dbg"][0] if r and r["kind"] in ("convert", "track", "raw") else "")},
                          {"trace_id": t["id"], "failing_record_index": step, "failing_record": r})
    for t in traces[:1] + traces[-2:]:
        chk.sample({k: v for k, v in t["recs"][min(3, len(t["recs"]) - 1)].items()} if t["recs"] else {})
    # specification-level lemmas over true 64-bit constants (Apalache)
    import os, subprocess, shutil, time
    from ..tlc import SPEC_DIR, WORK_ROOT
    out = os.path.join(WORK_ROOT, "apalache-%d" % os.getpid())
    t0 = time.time()
    try:
        r = subprocess.run(["apalache-mc", "check", "--init=Init", "--next=Next", "--inv=Inv", "--length=0",
                            "--out-dir=" + out, os.path.join(SPEC_DIR, "TdmsTimeLemmas.tla")],
                           capture_output=True, text=True, timeout=600, cwd=SPEC_DIR)
        ok = "The outcome is: NoError" in r.stdout
        chk.cov["apalache"] = {"module": "TdmsTimeLemmas", "invariant": "Denotes /\\ Fits /\\ Increasing for all 10^6 microseconds",
                               "outcome": "NoError" if ok else "Error", "wall_s": round(time.time() - t0, 1)}
        if not ok and "The outcome is: Error" in r.stdout:
            chk.violations.append(({"kind": "specification", "config": "TdmsTimeLemmas (Apalache)"},
                                   {"kind": "specification", "output": r.stdout[-3000:]}))
        elif not ok:
            chk.observe("apalache_inconclusive")
    except (subprocess.TimeoutExpired, FileNotFoundError):
        chk.observe("apalache_unavailable_or_timeout")
    finally:
        shutil.rmtree(out, ignore_errors=True)
    chk.assumptions += ["seconds and unit counts are biased by 2^40 s in the harness so that all limb numbers are "
                        "non-negative", "time_track only for exactly representable (dyadic) offsets and increments"]
    return chk.finish("model_checking", RULE)
