"""C14 - channel.dtype and len(channel) describe what reads return.
Specification: TdmsScaling.DType (float64 for computing scales, NumPy promotion for Add/Subtract, raw type for no-op
and unscaled) and the per-type dtypes of unscaled channels.  GEN: every enumerated scaled case (incl. RTD /
thermocouple / thermistor / strain through their dtype) and every unscaled channel of the 17 types is read with every
kind of read - full, window, slice, stepped, reversed, empty window, beyond the end, chunk streams, .data - eagerly and
lazily, on a channel with values and on a zero-length twin; each result must be an ndarray whose dtype equals
channel.dtype, which must equal the specification's, and full reads must have len(channel) elements."""
from ..common import Check
from ..genrun import run_config

RULE = ("case = scaled numeric channel (raw type x graph of Linear/Polynomial/Table/no-op/sensor/Add/Subtract, 1-2 "
        "scales) with a zero-length twin, or an unscaled two-channel file over all 17x17 type pairs x layout x byte "
        "order x raw_timestamps; evaluations = individual reads; non-trivial = every case; distinct = distinct cases")

ALL = ('{"int8", "int16", "int32", "int64", "uint8", "uint16", "uint32", "uint64", "float32", "float64"}')
CONFIGS = {
    "quick": [("scaled", "TdmsScaling", "TdmsScaling.cfg", {"MaxScales": 1, "RawTypes": ALL, "Levels": '{"channel"}',
                                                            "UnaryKinds": '{"Linear", "Polynomial", "Table", "NoOp", "Sensor"}'}),
              ("scaled", "TdmsScaling", "TdmsScaling.cfg", {"MaxScales": 2, "RawTypes": '{"uint8", "int32", "float32"}',
                                                            "Levels": '{"group"}', "UnaryKinds": '{"Linear", "NoOp"}'}),
              ("scaled", "TdmsScaling", "TdmsScaling.cfg", {"MaxScales": 1, "RawTypes": '{"int16"}', "Levels": '{"channel"}',
                                                            "UnaryKinds": '{"Linear", "NoOp"}',
                                                            "DaqTypes": '{"int16", "uint8", "float32", "uint64"}', "MaxDaqScales": 1}),
              ("plain", "MC_C01_types", "MC_C01_types.cfg", {"MaxSegs": 1, "NVals": "{0, 3}", "KVals": "{1, 3}"})],
    "thorough": [("scaled", "TdmsScaling", "TdmsScaling.cfg", {"MaxScales": 2, "RawTypes": ALL, "Levels": '{"channel"}',
                                                               "UnaryKinds": '{"Linear", "Polynomial", "Table", "NoOp", "Sensor"}'}),
                 ("plain", "MC_C01_types", "MC_C01_types.cfg", {"MaxSegs": 1}),
                 ("plain", "MC_C15_mix", "MC_C15_mix.cfg", {"MaxSegs": 2})],
}


def run(tier):
    chk = Check("C14", tier)
    for (kind, module, cfg, ov) in CONFIGS[tier]:
        run_config(chk, module, cfg, ov, lambda rec, i: {"rec": rec, "seed": chk.seed}, "harness.scaling",
                   "replay_dtype_scaled_case" if kind == "scaled" else "replay_dtype_plain_case",
                   sample_fn=(lambda rec: rec) if kind == "scaled" else (lambda rec: {"file": rec["file"], "ty": rec["ty"]}),
                   sample_every=3001, timeout=1500)
    chk.assumptions += ["under raw_timestamps=True channel.dtype of timestamp channels is exempt by the statement; there only "
                        "the agreement of empty and non-empty results is asserted",
                        "sensor scales appear through their dtype only (values are C17/C18, not claimed)"]
    return chk.finish("model_checking", RULE)
