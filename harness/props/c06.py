"""C06 - a file cut short by a crash reads as a prefix of the complete file.
MC: TdmsTruncate - the reader model (lead-in clamping, dropped segment, partial final chunk) satisfies the statement's
invariants for every cut of every enumerated file.  GEN: every file x every cut offset is cut in the concrete bytes
and read eagerly and lazily; the statement's invariants are evaluated on the OBSERVED results (no failure, prefix,
len = returned, >= values of whole segments, lazy = eager, incomplete flag <=> cut in raw data)."""
from ..common import Check
from ..genrun import run_config

RULE = ("files of 1..MaxSegs6 segments over two channels (value widths 1/4/8/16 and string, 1-3 chunks, contiguous / "
        "interleaved, optional metadata-less last segment, explicit next-segment offset or 0xFFFF.. marker); every cut "
        "offset 4..FileLen; one TLC state per (file, cut); evaluations = (cut, mode) reads; non-trivial = every file; "
        "distinct = distinct files replayed")

CONFIGS = {
    "quick": [("MC_C06", "MC_C06.cfg", {"MaxSegs6": 1, "Widths": "{1, 4, 0}", "NVals6": "{1, 2}", "KVals6": "{1, 2}"}, 1),
              ("MC_C06", "MC_C06.cfg", {"MaxSegs6": 2, "Widths": "{8, 0}", "NVals6": "{2}", "KVals6": "{2}"}, 2),
              # 16-byte values (timestamps, complex doubles), alone and beside a narrow channel
              ("MC_C06", "MC_C06.cfg", {"MaxSegs6": 1, "Widths": "{16, 1}", "NVals6": "{2}", "KVals6": "{1, 2}"}, 1)],
    "thorough": [("MC_C06", "MC_C06.cfg", {"MaxSegs6": 1, "Widths": "{1, 4, 8, 16, 0}", "NVals6": "{1, 2, 3}",
                                           "KVals6": "{1, 2, 3}"}, 1),
                 ("MC_C06", "MC_C06.cfg", {"MaxSegs6": 2, "Widths": "{1, 8, 0}", "NVals6": "{1, 2}", "KVals6": "{1, 3}"}, 1)],
}


def run(tier):
    chk = Check("C06", tier)
    for (module, cfg, ov, stride) in CONFIGS[tier]:
        # thorough: the two twins (DAQmx storage, carried no-data objects) of every third file only - the plain sweep of
        # every cut of every file already takes most of an hour
        every = 1 if tier == "quick" else 3
        run_config(chk, module, cfg, ov,
                   lambda rec, i, stride=stride, every=every: {"rec": rec, "seed": chk.seed, "variant": i % 5,
                                                               "stride": stride, "twins": i % every == 0},
                   "harness.truncate", "replay_trunc_case",
                   sample_fn=lambda rec: {"file": rec["file"], "fileLen": rec["fileLen"], "cuts": rec["cuts"][-3:]},
                   sample_every=211, expect_all_states=False, timeout=4 * 3600)
    # composition (TdmsSystem): writer sessions -> crash -> readers with / without the writer's index file, long
    # simulated behaviours replayed on a scratch directory
    from ..system import run_system
    run_system(chk, 120 if tier == "quick" else 3000)
    if tier == "thorough":
        run_system(chk, 1500, cfg_over={"ObjChoices": "c_ObjChoicesStr"})
    chk.assumptions += ["the specification's byte layout (TdmsLayout) and the encoder's agree on every position (asserted)",
                        "marker + strings + multi-chunk last segment is outside the statement and not judged",
                        "verdicts use the statement's invariants on observed results; equality with the reader model "
                        "is recorded as an observation only"]
    return chk.finish("model_checking", RULE)
