"""C07 - what TdmsWriter writes is what TdmsFile reads.
MC: TdmsWriter.RoundTrip (reader model over the emitted explicit segments = what the caller asked to store) and
ParentsFirst.  GEN: every program TLC enumerates (1-2 sessions, <=2-3 write_segment calls, object lists in caller
order, every array class x length, every property value class) is executed with the real TdmsWriter and read back."""
from ..common import Check
from ..genrun import run_config

RULE = ("a case is a program: open/write_segment/close calls; slices: structure (6 objects, caller orders, 2 sessions), "
        "array classes (32 classes x lengths 0/1/3, 2 sessions), property value classes (42 classes on root / group / "
        "channel, overwritten in a second call); non-trivial = at least one write_segment; distinct = distinct programs")

CONFIGS = {
    "quick": [("MC_C07", "MC_C07_struct.cfg", {"MaxCalls": 2}),
              # programs containing a call the writer refuses (RefusedWrite: raises, nothing written, nothing remembered)
              ("MC_C07", "MC_C07_struct.cfg", {"MaxCalls": 2, "MaxRefused": 1, "ObjSeqs": "c_SeqsRefuse", "Lens": "{2}"}),
              ("MC_C07", "MC_C07_classes.cfg", {"MaxCalls": 2, "Lens": "{0, 3}"}),
              # arrays larger than any internal block size (1 MiB), to a stream and to a path (2^17: an exact multiple of
              # every power-of-two block length)
              ("MC_C07", "MC_C07_classes.cfg", {"MaxCalls": 1, "MaxSessions": 1, "Lens": "{150001, 131072}",
                                                "ArrayClasses": "c_BigClasses", "ObjSeqs": "c_SeqsA"}),
              ("MC_C07", "MC_C07_props.cfg", {"MaxCalls": 1, "PropNamesW": '{"p1"}'}),
              ("MC_C07", "MC_C07_props.cfg", {"MaxCalls": 2, "ValueClasses": "c_FewValueClasses", "PropNamesW": '{"p1"}'})],
    "thorough": [("MC_C07", "MC_C07_struct.cfg", {"MaxCalls": 3, "Lens": "{2}"}),
                 ("MC_C07", "MC_C07_struct.cfg", {"MaxCalls": 3, "MaxRefused": 2, "ObjSeqs": "c_SeqsRefuse", "Lens": "{2}"}),
                 ("MC_C07", "MC_C07_classes.cfg", {"MaxCalls": 3}),
                 # large arrays (as in the quick tier)
                 ("MC_C07", "MC_C07_classes.cfg", {"MaxCalls": 1, "MaxSessions": 1, "Lens": "{150001, 131072, 65536}",
                                                   "ArrayClasses": "c_BigClasses", "ObjSeqs": "c_SeqsA"}),
                 ("MC_C07", "MC_C07_props.cfg", {"MaxCalls": 1}),
                 ("MC_C07", "MC_C07_props.cfg", {"MaxCalls": 2, "ValueClasses": "c_FewValueClasses"})],
}


def run(tier):
    chk = Check("C07", tier)
    for (module, cfg, ov) in CONFIGS[tier]:
        run_config(chk, module, cfg, ov, lambda rec, i: {"rec": rec, "seed": chk.seed},
                   "harness.writerprog", "replay_writer_case",
                   sample_fn=lambda rec: {"prog": rec["prog"], "cls": rec["cls"], "chans": rec["chans"]},
                   sample_every=2503)
    # composition (TdmsSystem): writer sessions -> crash -> readers with / without the writer's index file, long
    # simulated behaviours replayed on a scratch directory
    from ..system import run_system
    run_system(chk, 120 if tier == "quick" else 3000)
    if tier == "thorough":
        run_system(chk, 1500, cfg_over={"ObjChoices": "c_ObjChoicesStr"})
    chk.assumptions += ["concrete arrays / property values per class: harness/writerprog.py (boundary values first)",
                        "TDMS type of written properties observed through the independent structural parser",
                        "lists of Python bools may come back as Boolean or Int8 (bool is an int); list classes are not "
                        "written with length 0 (numpy gives an empty list float64)"]
    return chk.finish("model_checking", RULE)
