"""C16 - object names are arbitrary strings and never alias.
MC: TdmsPath - the decoder automaton (character-pair scanner) against the encoder for all names up to MaxLen over
{quote, slash, space, letter}.  GEN: the same set through ObjectPath / from_string and, in batches of distinct names
per file, end to end through TdmsWriter and TdmsFile.  TRACE: random unicode names validated by Trace_Path.tla."""
from .. import trace
from ..common import Check
from ..genrun import run_config

RULE = ("all (group, channel) name pairs with names up to MaxLen characters over {', /, space, letter}, group-only paths "
        "and the root; the letter is concretised to several unicode characters; non-trivial = every path except the "
        "root; distinct = distinct concrete paths")


def run(tier):
    chk = Check("C16", tier)
    maxlen = 3
    rots = 2 if tier == "quick" else 6
    for rot in range(rots):
        batch = []

        def make(rec, i, rot=rot):
            batch.append(rec)
            if len(batch) >= 60:
                case = {"recs": list(batch), "rot": rot + chk.seed}
                del batch[:]
                return case
            return None

        run_config(chk, "TdmsPath", "TdmsPath.cfg", {"MaxLen": maxlen}, make, "harness.paths", "replay_path_batch",
                   sample_fn=lambda rec: rec, sample_every=1777, expect_all_states=False,
                   flush_cases=lambda rot=rot: [{"recs": list(batch), "rot": rot + chk.seed}] if batch else [],
                   label="TdmsPath.cfg MaxLen=%d letter#%d" % (maxlen, rot))
    # TRACE: random unicode names recorded from the real code
    import sys
    from ..paths import random_name_traces
    traces = random_name_traces(chk.seed, 40 if tier == "quick" else 400, 50)
    accepted, where, tres = trace.validate("Trace_Path", "Trace_Path.cfg", traces, "C16-trace")
    chk.cov["tlc_runs"].append({"config": "Trace_Path", "traces": len(traces), "accepted": len(accepted),
                                "distinct_states": tres.distinct})
    chk.cov["states"] += tres.distinct
    chk.cov["transitions"] += tres.generated
    chk.validated(len(accepted))
    chk.count(sum(len(t["recs"]) for t in traces))
    for t in traces:
        if str(t["id"]) not in accepted:
            step = where.get(str(t["id"]))
            chk.violation({"kind": "path", "level": "trace"},
                          {"record": t["recs"][step - 1] if step and step <= len(t["recs"]) else None})
    chk.assumptions += ["the letter symbol stands for any character other than quote and slash"]
    return chk.finish("model_checking", RULE)
