"""C08 - TdmsWriter emits structurally valid segments and a faithful index file.
MC: TdmsWriter.ParentsFirst on the emitted object lists.  TRACE (code -> spec): the programs of C07 are executed
(index_file off / True / stream), the written bytes are turned into parse events by the independent structural
parser and Trace_Writer.tla (the TDMS layout as a recogniser) accepts or rejects each trace."""
from .. import tlc, trace
from ..common import Check, Replayer, Machinery

RULE = ("one trace per TdmsWriter program (as in C07: structure / array classes / property classes slices); events = "
        "one per written segment of the data file and of the index file; non-trivial = at least one write_segment; "
        "distinct = distinct programs")

CONFIGS = {
    "quick": [("MC_C07", "MC_C07_struct.cfg", {"MaxCalls": 2}),
              # programs containing a call the writer refuses (RefusedWrite: raises, nothing written, nothing remembered)
              ("MC_C07", "MC_C07_struct.cfg", {"MaxCalls": 2, "MaxRefused": 1, "ObjSeqs": "c_SeqsRefuse", "Lens": "{2}"}),
              ("MC_C07", "MC_C07_classes.cfg", {"MaxCalls": 2, "Lens": "{0, 3}"}),
              ("MC_C07", "MC_C07_props.cfg", {"MaxCalls": 1, "PropNamesW": '{"p1"}'})],
    "thorough": [("MC_C07", "MC_C07_struct.cfg", {"MaxCalls": 3, "Lens": "{2}"}),
                 ("MC_C07", "MC_C07_struct.cfg", {"MaxCalls": 3, "MaxRefused": 2, "ObjSeqs": "c_SeqsRefuse", "Lens": "{2}"}),
                 ("MC_C07", "MC_C07_classes.cfg", {"MaxCalls": 3}),
                 ("MC_C07", "MC_C07_props.cfg", {"MaxCalls": 1})],
}


def run(tier):
    chk = Check("C08", tier)
    for (module, cfg, ov) in CONFIGS[tier]:
        traces = []
        rp = Replayer("harness.writerprog", "record_writer_case", batch=100)
        ov2 = dict(ov)
        ov2["GenPrint"] = "TRUE"
        cnt = [0]

        def on_gen(rec):
            cnt[0] += 1
            rp.add({"rec": rec, "seed": chk.seed, "id": cnt[0]})

        res = tlc.run(module, cfg, name="C08-" + module, overrides=ov2, on_gen=on_gen)
        chk.add_tlc("%s %s (MC: RoundTrip, ParentsFirst)" % (cfg, ov), res)
        if res.violated:
            chk.model_violation(cfg, res)
        for r in rp.finish():
            if "machinery" in r:
                raise Machinery(r["machinery"])
            for sig, b in r.get("fails", ()):
                chk.violation(sig, b)
            if r.get("trace"):
                traces.append(r["trace"])
                chk.count(r["n"], r["keys"])
        B = 6000
        for i in range(0, len(traces), B):
            batch = traces[i:i + B]
            slim = [{k: t[k] for k in ("id", "segs", "has_index", "index", "trailing")} for t in batch]
            accepted, where, tres = trace.validate("Trace_Writer", "Trace_Writer.cfg", slim, "C08-trace")
            chk.cov["tlc_runs"].append({"config": "Trace_Writer batch %d" % (i // B), "traces": len(batch),
                                        "accepted": len(accepted), "distinct_states": tres.distinct,
                                        "wall_s": round(tres.wall, 2)})
            chk.cov["states"] += tres.distinct
            chk.cov["transitions"] += tres.generated
            chk.validated(len(accepted))
            for t in batch:
                if str(t["id"]) not in accepted:
                    step = where.get(str(t["id"]))
                    ev = t["segs"][step - 1] if step and step <= len(t["segs"]) else None
                    strings = bool(ev) and any(o["type"] == "String" for o in ev["objs"])
                    chk.violation({"kind": "layout", "string_channel": strings, "index": t["has_index"],
                                   "idx_len_mismatch": bool(ev) and any(o["kind"] == "full" and o["idx_hdr"] != o["idx_bytes"]
                                                                        for o in ev["objs"])},
                                  {"trace_id": t["id"], "info": t["info"], "failing_segment_index": step,
                                   "failing_segment": ev})
            if batch and i == 0:
                t = batch[len(batch) // 2]
                chk.sample({"prog": t["info"]["prog"], "segs": t["segs"][:2], "has_index": t["has_index"]})
    chk.assumptions += ["independent structural parser harness/parser.py (follows declared lengths)",
                        "byte-for-byte equality of index and data metadata is judged on the CRC of lead-in (without "
                        "tag) + metadata bytes of each segment and on segment positions"]
    return chk.finish("model_checking", RULE)
