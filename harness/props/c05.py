"""C05 - reads from an open file are independent of earlier reads.
MC: TdmsOpenFile, every interleaving of index / window / generator operations of any length over the finite hidden
state (cursor, per-channel chunk cache, live generators): HistoryIndependentAct on every transition.
GEN: behaviours (bounded histories, exhaustive for short ones and tlc -simulate for long walks) are replayed on one
TdmsFile.open object; after each operation the result is compared with the specification's obs, which by the
invariant is the fresh-file result."""
from ..common import Check
from ..genrun import run_config
from .. import tlc

RULE = ("a case is one history of operations (integer index, window read, new channel-/file-level generator, next) "
        "on one open two-channel file of a given shape, with the result the specification expects after every step; "
        "non-trivial = at least two data-returning operations; distinct = distinct (shape, history)")


def run(tier):
    chk = Check("C05", tier)
    # MC over the finite hidden state, unbounded history length
    mc = [("MC_C05", "MC_C05.cfg", {"Shapes2": "c_Quick", "MaxIters": 2})] if tier == "quick" else \
         [("MC_C05", "MC_C05.cfg", {"Shapes2": "c_All", "MaxIters": 2}),
          ("MC_C05", "MC_C05.cfg", {"Shapes2": "c_Quick", "MaxIters": 3})]
    for module, cfg, ov in mc:
        res = tlc.run(module, cfg, name="C05-mc", overrides=ov)
        chk.add_tlc("%s %s (all interleavings, VIEW hides obs/hist)" % (cfg, ov), res)
        if res.violated:
            chk.model_violation(cfg, res)
    gens = [("MC_C05", "MC_C05_gen.cfg", {"MaxHist": 2, "MaxIters": 2}, None, None),
            ("MC_C05", "MC_C05_gen.cfg", {"MaxHist": 12, "MaxIters": 3}, 1500, 14),
            ("MC_C05", "MC_C05_gen.cfg", {"MaxHist": 40, "MaxIters": 3}, 300, 42),
            ("MC_C05", "MC_C05_gen.cfg", {"MaxHist": 5, "MaxIters": 1, "Shapes2": "c_Long"}, 48, 7)]
    if tier == "thorough":
        gens = [("MC_C05", "MC_C05_gen.cfg", {"MaxHist": 3, "MaxIters": 2}, None, None),
                ("MC_C05", "MC_C05_gen.cfg", {"MaxHist": 12, "MaxIters": 3}, 20000, 14),
                ("MC_C05", "MC_C05_gen.cfg", {"MaxHist": 30, "MaxIters": 3, "Dense": "TRUE"}, 5000, 32),
                ("MC_C05", "MC_C05_gen.cfg", {"MaxHist": 80, "MaxIters": 3}, 2000, 82),
                ("MC_C05", "MC_C05_gen.cfg", {"MaxHist": 10, "MaxIters": 2, "Shapes2": "c_Long"}, 640, 12)]
    for module, cfg, ov, sim, depth in gens:
        run_config(chk, module, cfg, ov,
                   lambda rec, i: {"rec": rec, "seed": chk.seed, "variant": i % 7},
                   "harness.openfile", "replay_history_case",
                   sample_fn=lambda rec: {"shape": rec["shape"], "hist": rec["hist"][:6]}, sample_every=3001,
                   simulate=sim, depth=depth, expect_all_states=False,
                   label="%s %s %s" % (cfg, ov, ("simulate %d x depth %d" % (sim, depth)) if sim else "exhaustive"))
    chk.assumptions += ["cursor positions are abstracted to chunk boundaries / elsewhere; the binding is on results only",
                        "generators are compared modulo empty chunks (next = next non-empty chunk)"]
    return chk.finish("model_checking", RULE)
