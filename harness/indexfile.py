"""C09 replay: a matching .tdms_index beside the data file is transparent; the index alone gives the metadata and
refuses data reads."""
import io
import os
import shutil
import tempfile
import zlib

import numpy as np

from . import enc, proj
from .truncate import build_trunc_file, _width_conflict, PATH
from .common import ROOT

SCRATCH = os.path.join(ROOT, ".work")


def _refuse():
    raise RuntimeError("not applicable")


def _views(TdmsFile, path):
    out = {}
    out["read"] = proj.project_file(TdmsFile.read(path, raw_timestamps=True))
    with TdmsFile.open(path, raw_timestamps=True) as f:
        out["open"] = proj.project_file(f)
    out["meta"] = proj.project_file(TdmsFile.read_metadata(path, raw_timestamps=True), data=False)
    return out


def _writer_twin(fd, e, tmp):
    """the same content written by TdmsWriter with index_file=True (writer-producible files only)"""
    from nptdms import TdmsWriter, ChannelObject
    for s in fd["segs"]:
        if s.get("il") or not s.get("meta", True) or s.get("marker"):
            return None
        for o in s["objs"]:
            if o["ty"] == "TimeStamp" or (o["ty"] == "String" and o["n"] * s["k"] == 0):
                return None
    path = os.path.join(tmp, "w.tdms")
    pos = {}
    nseg = len(fd["segs"])
    for si, s in enumerate(fd["segs"]):
        # the second half of the segments is written by a second writer session that appends
        mode = "w" if si == 0 else "a"
        if si not in (0, (nseg + 1) // 2):
            continue
        chunk = fd["segs"][si:(nseg + 1) // 2] if si == 0 else fd["segs"][si:]
        _write_session(TdmsWriter, ChannelObject, path, mode, chunk, e, pos)
    return path


def _write_session(TdmsWriter, ChannelObject, path, mode, segs, e, pos):
    from .parser import components
    with TdmsWriter(path, mode=mode, index_file=True) as w:
        for s in segs:
            objs = []
            for o in s["objs"]:
                n = o["n"] * s["k"]
                start = pos.get(o["p"], 0)
                vals = e.values[o["p"]][start:start + n]
                pos[o["p"]] = start + n
                if o["ty"] == "String":
                    arr = list(vals)
                else:
                    arr = np.frombuffer(b"".join(vals), dtype=enc.NPTYPE[o["ty"]]) if vals else \
                        np.array([], dtype=enc.NPTYPE[o["ty"]])
                g, c = components(o["p"])
                objs.append(ChannelObject(g, c, arr))
            w.write_segment(objs)
        if mode == "a" or len(segs) == 0 or True:
            from nptdms import RootObject, GroupObject
            # a segment without any channel data: file and group properties only
            w.write_segment([RootObject({"note": "session %s" % mode}), GroupObject("grp", {"n": 1})])


def replay_index_case(case):
    from nptdms import TdmsFile
    rec = case["rec"]
    frec = rec["file"]
    seed = case["seed"]
    if _width_conflict(frec):
        return {"n": 0, "keys": [], "fails": [], "validated": 0}
    fd, tys = build_trunc_file(frec, seed, case.get("variant", 0))
    hp = zlib.crc32(repr(frec).encode()) + seed
    if hp % 2 == 0:
        # padded metadata in some segments (also in segments without raw data); the index file repeats the padding
        for j_, sg_ in enumerate(fd["segs"]):
            if sg_["meta"] and (j_ + hp // 2) % 2 == 0:
                sg_["metapad"] = 1 + (hp // 4 + 3 * j_) % 9
    e = enc.encode(fd, seed)
    fails = []
    obs = {}
    n = 0
    tmp = tempfile.mkdtemp(prefix="c09-", dir=SCRATCH)
    bundle = {"file": frec, "types": tys, "seed": seed, "variant": case.get("variant", 0), "hex": e.data.hex()}

    def sig(kind, **kw):
        s = {"kind": kind, "marker": bool(frec["marker"])}
        s.update(kw)
        return s

    try:
        plain = os.path.join(tmp, "plain.tdms")
        with open(plain, "wb") as fh:
            fh.write(e.data)
        withidx = os.path.join(tmp, "indexed.tdms")
        with open(withidx, "wb") as fh:
            fh.write(e.data)
        with open(withidx + "_index", "wb") as fh:
            fh.write(e.index)
        ref = _views(TdmsFile, plain)
        full = {nm: proj.expected_elems(tys[nm], e.values.get(PATH[nm], [])) for nm in tys}
        for nm in tys:
            got = ref["read"]["chans"].get(PATH[nm])
            if got is None or got.get("data") != full[nm]:
                fails.append((sig("reference-read-wrong"), dict(bundle, channel=nm)))
        try:
            idx = _views(TdmsFile, withidx)
            for api in ("read", "open", "meta"):
                n += 1
                if idx[api] != ref[api]:
                    fails.append((sig("index-not-transparent", api=api, producer="encoder"),
                                  dict(bundle, api=api, without_index=ref[api], with_index=idx[api])))
        except Exception as ex:  # noqa
            fails.append((sig("index-read-raised", producer="encoder", exception=type(ex).__name__),
                          dict(bundle, exception="%s: %s" % (type(ex).__name__, ex))))
        # the same file stored as DAQmx raw data, with its index beside it
        from .truncate import daqmx_twin
        twin = daqmx_twin(frec, fd, tys, zlib.crc32(repr(frec).encode()) + seed)
        if twin is not None:
            e2 = enc.encode(twin[0], seed)
            dq_plain = os.path.join(tmp, "dq_plain.tdms")
            dq_idx = os.path.join(tmp, "dq_indexed.tdms")
            for pth, blob in ((dq_plain, e2.data), (dq_idx, e2.data), (dq_idx + "_index", e2.index)):
                with open(pth, "wb") as fh:
                    fh.write(blob)
            n += 1
            try:
                a, b = _views(TdmsFile, dq_plain), _views(TdmsFile, dq_idx)
                want = {nm: proj.expected_elems(twin[1][nm], list(e2.scaler_values.get(PATH[nm], {}).get(0, [])))
                        for nm in twin[1]}
                for api in ("read", "open", "meta"):
                    if a[api] != b[api]:
                        fails.append((sig("index-not-transparent", api=api, producer="encoder", storage="daqmx"),
                                      dict(bundle, api=api, without_index=a[api], with_index=b[api], hex=e2.data.hex())))
                for nm in want:
                    got = b["read"]["chans"].get(PATH[nm])
                    if got is None or got.get("data") != want[nm]:
                        fails.append((sig("reference-read-wrong", storage="daqmx"), dict(bundle, channel=nm, hex=e2.data.hex())))
                obs["daqmx_twins"] = 1
            except Exception as ex:  # noqa
                fails.append((sig("index-read-raised", producer="encoder", storage="daqmx", exception=type(ex).__name__),
                              dict(bundle, exception="%s: %s" % (type(ex).__name__, ex), hex=e2.data.hex())))
        # index alone: same objects, properties, types, lengths; data reads refused
        if not frec["marker"]:
            entries = (("open", TdmsFile.open), ("read", TdmsFile.read), ("meta", TdmsFile.read_metadata),
                       ("ctor", TdmsFile))
            for src_kind, (api, entry) in [(s_, a_) for s_ in ("path", "stream", "fileobj") for a_ in entries]:
                n += 1
                fh2 = None
                try:
                    if src_kind == "path":
                        src = withidx + "_index"
                    elif src_kind == "stream":
                        src = io.BytesIO(e.index)
                    else:
                        src = fh2 = open(withidx + "_index", "rb")
                    fo = entry(src, raw_timestamps=True)
                    v = proj.project_file(fo, data=False)
                    if v != ref["meta"]:
                        fails.append((sig("index-only-metadata", source=src_kind, api=api),
                                      dict(bundle, expected=ref["meta"], observed=v)))
                    for g in fo.groups():
                        for ch in g.channels():
                            if len(ch) == 0:
                                continue
                            for how, fn in (("slice", lambda c: c[:]), ("read_data", lambda c: c.read_data()),
                                            ("index", lambda c: c[0]), ("chunks", lambda c: list(c.data_chunks())),
                                            ("iterate", lambda c: list(c)),
                                            ("file_chunks", lambda c: list(fo.data_chunks()) if api == "open" else _refuse()),
                                            # requests that select no value are data reads all the same
                                            ("read_data(0, 0)", lambda c: c.read_data(0, 0)),
                                            ("read_data(len + 1)", lambda c: c.read_data(len(c) + 1)),
                                            ("read_data(scaled=False)", lambda c: c.read_data(scaled=False))):
                                try:
                                    r = fn(ch)
                                    fails.append((sig("index-only-returned-data", how=how),
                                                  dict(bundle, channel=ch.path, returned=repr(r)[:200])))
                                except Exception:  # noqa  (refusing is what is required)
                                    pass
                    fo.close()
                except Exception as ex:  # noqa
                    fails.append((sig("index-only-raised", source=src_kind, api=api, exception=type(ex).__name__),
                                  dict(bundle, exception="%s: %s" % (type(ex).__name__, ex))))
                finally:
                    if fh2 is not None:
                        fh2.close()
        else:
            obs["index_only_with_marker_not_judged"] = 1
        # the same content written by TdmsWriter with its own index file
        wp = _writer_twin(fd, e, tmp)
        if wp:
            n += 1
            try:
                w_idx = _views(TdmsFile, wp)
            except Exception as ex:  # noqa
                w_idx = {api: {"exception": "%s: %s" % (type(ex).__name__, ex)} for api in ("read", "open", "meta")}
            os.rename(wp + "_index", wp + "_index.off")
            w_plain = _views(TdmsFile, wp)
            for api in ("read", "open", "meta"):
                if w_idx[api] != w_plain[api]:
                    fails.append((sig("index-not-transparent", api=api, producer="TdmsWriter"),
                                  dict(bundle, api=api, without_index=w_plain[api], with_index=w_idx[api])))
            for nm in tys:
                got = (w_idx["read"].get("chans") or {}).get(PATH[nm])
                if got is None or got.get("data") != full[nm]:
                    fails.append((sig("writer-twin-content"), dict(bundle, channel=nm)))
            obs["writer_twins"] = 1
        # truncated data file beside the index of the complete file: not a matching index; observed only
        for c in case.get("cuts", []):
            cutp = os.path.join(tmp, "cut%d.tdms" % c)
            with open(cutp, "wb") as fh:
                fh.write(e.data[:c])
            try:
                a = proj.project_file(TdmsFile.read(cutp, raw_timestamps=True))
                with open(cutp + "_index", "wb") as fh:
                    fh.write(e.index)
                b = proj.project_file(TdmsFile.read(cutp, raw_timestamps=True))
                obs["cut_with_full_index_" + ("same" if a == b else "differs")] = \
                    obs.get("cut_with_full_index_" + ("same" if a == b else "differs"), 0) + 1
            except Exception:  # noqa
                obs["cut_with_full_index_raised"] = obs.get("cut_with_full_index_raised", 0) + 1
    finally:
        shutil.rmtree(tmp, ignore_errors=True)
    return {"n": n, "keys": [zlib.crc32(repr(frec).encode())], "fails": fails, "validated": 1, "obs": obs}
