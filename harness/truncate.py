"""C06 replay: every cut offset of every file TdmsTruncate enumerates."""
import io
import zlib

from . import enc, proj

WCLASS = {1: ["Int8", "Uint8", "Boolean"], 2: ["Int16", "Uint16"], 4: ["Int32", "Uint32", "SingleFloat"],
          8: ["Int64", "DoubleFloat", "ComplexSingleFloat", "DoubleFloatWithUnit"],
          16: ["TimeStamp", "ComplexDoubleFloat"], 0: ["String"]}
PATH = {"x": "/'grp'/'x'", "y": "/'grp'/'y'"}


def build_trunc_file(frec, seed, variant=0):
    h = zlib.crc32(("%d/%d/%r" % (seed, variant, frec)).encode())
    tys = {}
    segs = []
    prev_objs = None
    be = (h // 5) % 2 == 1
    nseg = len(frec["segs"])
    for j, s in enumerate(frec["segs"]):
        if s["meta"]:
            objs = []
            for o in s["objs"]:
                key = (o["c"], o["w"])
                if o["c"] not in tys:
                    cl = WCLASS[o["w"]]
                    tys[o["c"]] = cl[(h // (7 if o["c"] == "x" else 13)) % len(cl)]
                objs.append({"p": PATH[o["c"]], "has": True, "n": o["n"], "ty": tys[o["c"]]})
            listed = [{"p": o["p"], "kind": "full"} for o in objs]
            prev_objs = objs
            seg = {"meta": True, "newlist": True, "be": be, "il": bool(s["il"]), "listed": listed, "objs": objs,
                   "k": s["k"]}
        else:
            seg = {"meta": False, "newlist": False, "be": be, "il": bool(s["il"]), "listed": [], "objs": prev_objs,
                   "k": s["k"]}
        if j == nseg - 1 and frec["marker"]:
            seg["marker"] = True
        segs.append(seg)
    return {"segs": segs, "strfix": True}, tys


DQ_BY_W = {1: ["Int8", "Uint8"], 2: ["Int16", "Uint16"], 4: ["Int32", "Uint32", "SingleFloat"],
           8: ["Int64", "Uint64", "DoubleFloat"]}
DQ_PROPS = [["NI_Scaling_Status", "String", "unscaled"], ["NI_Number_Of_Scales", "Uint32", (1).to_bytes(4, "little")]]


def daqmx_twin(frec, fd, tys, h):
    """-> (file description, types) of the same file stored as DAQmx raw data, or None (interleaved / strings / wide)"""
    import copy
    if any(s["il"] for s in frec["segs"]) or any(o["w"] not in DQ_BY_W for s in frec["segs"] for o in s["objs"]):
        return None
    width = {o["c"]: o["w"] for s in frec["segs"] for o in s["objs"]}
    chans = sorted(width)
    if not chans:
        return None
    buf = {PATH[c]: i for i, c in enumerate(chans)}
    widths = [width[c] for c in chans]
    tys2 = {c: DQ_BY_W[width[c]][(h // (3 if c == "x" else 11)) % len(DQ_BY_W[width[c]])] for c in chans}
    fd2 = copy.deepcopy(fd)
    fd2.pop("strfix", None)
    seen = set()
    for seg in fd2["segs"]:
        for o in seg["objs"] or []:
            c = [k for k in chans if PATH[k] == o["p"]][0]
            o["daqmx"] = {"kind": "fc", "widths": widths, "scalers": [{"id": 0, "ty": tys2[c], "buf": buf[o["p"]], "off": 0}]}
            o["ty"] = None
        for e_ in seg["listed"]:
            if e_["p"] not in seen:
                seen.add(e_["p"])
                e_["props"] = DQ_PROPS
    return fd2, tys2


def carry_twin(fd, h):
    """-> the same file with every channel seen so far kept in the object list of later segments that do not write it,
    as a "no data" entry; None if no segment drops a channel"""
    import copy
    fd3 = copy.deepcopy(fd)
    known = {}
    changed = False
    for seg in fd3["segs"]:
        if seg["meta"]:
            present = {o["p"] for o in seg["objs"]}
            absent = [p for p in known if p not in present]
            extra_o = [{"p": p, "has": False, "n": 0, "ty": known[p]} for p in absent]
            extra_l = [{"p": p, "kind": "nodata"} for p in absent]
            if absent:
                changed = True
                if h % 2:
                    seg["objs"], seg["listed"] = extra_o + seg["objs"], extra_l + seg["listed"]
                else:
                    seg["objs"], seg["listed"] = seg["objs"] + extra_o, seg["listed"] + extra_l
            for o in seg["objs"]:
                known[o["p"]] = o["ty"]
    return fd3 if changed else None


def _width_conflict(frec):
    """a channel must keep one type through the file: files where the same channel has two widths are skipped"""
    w = {}
    for s in frec["segs"]:
        for o in s["objs"]:
            if w.setdefault(o["c"], o["w"]) != o["w"]:
                return True
    return False


def _read(TdmsFile, data, mode):
    out = {"chans": {}, "incomplete": None}
    if mode == "eager":
        f = TdmsFile.read(io.BytesIO(data), raw_timestamps=True)
    else:
        f = TdmsFile.open(io.BytesIO(data), raw_timestamps=True)
    try:
        out["incomplete"] = bool(f.file_status.incomplete_final_segment)
        if "grp" in f:
            for nm in ("x", "y"):
                if nm in f["grp"]:
                    ch = f["grp"][nm]
                    arr = ch[:]
                    out["chans"][nm] = {"len": len(ch), "data": proj.elems(arr)}
    finally:
        if mode == "lazy":
            f.close()
    return out


def replay_trunc_case(case):
    from nptdms import TdmsFile
    rec = case["rec"]
    frec = rec["file"]
    seed = case["seed"]
    if _width_conflict(frec):
        return {"n": 0, "keys": [], "fails": [], "validated": 0, "obs": {"skipped_type_conflict": 1}}
    fd, tys = build_trunc_file(frec, seed, case.get("variant", 0))
    e = enc.encode(fd, seed)
    if len(e.data) != rec["fileLen"]:
        raise AssertionError("layout disagreement: encoder %d bytes, specification %d" % (len(e.data), rec["fileLen"]))
    for es, p in zip(e.segs, rec["pos"]):
        if [es["pos"], es["dataPos"], es["nextPos"]] != list(p):
            raise AssertionError("layout disagreement: encoder %r specification %r" % (es, p))
    full = {nm: proj.expected_elems(tys[nm], e.values.get(PATH[nm], [])) for nm in tys}
    fails = []
    obs = {}
    counter = [0]
    last = frec["segs"][-1]
    last_objs = last["objs"] if last["meta"] else [o for s in frec["segs"] if s["meta"] for o in s["objs"]][-2:]
    marker_strings_multichunk = frec["marker"] and last["k"] > 1 and any(o["w"] == 0 for o in last_objs)
    stride = case.get("stride", 1)

    def sweep(bytes_, full_, tys_, cutmap, storage):
        for cr in sorted(rec["cuts"], key=lambda r: r["c"]):
            c = cr["c"]
            if stride > 1 and (c + seed) % stride != 0 and c != rec["fileLen"] and not any(c in p for p in rec["pos"]) \
                    and not any(c - 1 in p or c + 1 in p for p in rec["pos"]):
                continue
            if marker_strings_multichunk:
                obs["not_judged_marker_strings_multichunk"] = obs.get("not_judged_marker_strings_multichunk", 0) + 1
                continue
            data = bytes_[:cutmap(c)]
            res = {}
            bad = None
            for mode in ("eager", "lazy"):
                counter[0] += 1
                try:
                    res[mode] = _read(TdmsFile, data, mode)
                except Exception as ex:  # noqa
                    bad = ("exception", mode, "%s: %s" % (type(ex).__name__, ex))
                    break
            if bad is None:
                for mode in ("eager", "lazy"):
                    r = res[mode]
                    for nm in ("x", "y"):
                        got = r["chans"].get(nm)
                        floor = cr["floor"][nm]
                        if got is None:
                            if floor > 0:
                                bad = ("lost-channel", mode, nm)
                            continue
                        if got["len"] != len(got["data"]):
                            bad = ("len-vs-returned", mode, "%s: len %d returned %d" % (nm, got["len"], len(got["data"])))
                        elif got["data"] != full_.get(nm, [])[:len(got["data"])]:
                            bad = ("not-a-prefix", mode, nm)
                        elif got["len"] < floor:
                            bad = ("lost-whole-segment-values", mode, "%s: %d < %d" % (nm, got["len"], floor))
                        elif got["len"] != cr["model"][nm] and storage == "plain":
                            obs["reader_model_differs"] = obs.get("reader_model_differs", 0) + 1
                    if bad is None and r["incomplete"] != bool(cr["incomplete"]):
                        bad = ("status", mode, "incomplete_final_segment %r, cut in raw data %r" % (r["incomplete"],
                                                                                               cr["incomplete"]))
                if bad is None and res["eager"]["chans"] != res["lazy"]["chans"]:
                    bad = ("lazy-vs-eager", "both", "")
            if bad is not None:
                fails.append(({"kind": "truncation", "what": bad[0], "mode": bad[1], "marker": bool(frec["marker"]),
                               "strings": any(o["w"] == 0 for s in frec["segs"] for o in s["objs"]),
                               "il": any(s["il"] for s in frec["segs"]), "storage": storage},
                              {"file": frec, "types": tys_, "cut": c, "cut_in_bytes": cutmap(c), "detail": bad[2],
                               "expect": cr, "observed": res, "storage": storage,
                               "seed": seed, "variant": case.get("variant", 0), "hex": bytes_.hex()}))
                if len(fails) >= 4:
                    break

    sweep(e.data, full, tys, lambda c: c, "plain")

    def structural(e2):
        """a cut of the plain file carried over to a twin whose raw data regions have the same lengths (only the
        metadata differs): same segment, same region, same offset"""
        def cutmap(c):
            if c >= len(e.data):
                return len(e2.data)
            for a, b in zip(e.segs, e2.segs):
                if c < a["nextPos"]:
                    if c <= a["pos"] + 28:
                        return b["pos"] + (c - a["pos"])
                    if c < a["dataPos"]:
                        return max(b["pos"] + 29, b["dataPos"] - (a["dataPos"] - c))
                    return b["dataPos"] + (c - a["dataPos"])
            return len(e2.data)
        return cutmap

    hh = zlib.crc32(repr(frec).encode()) + seed
    # twin 1: the same file stored as DAQmx raw data (one raw buffer per channel, width = value size)
    twins_on = case.get("twins", True)
    twin = daqmx_twin(frec, fd, tys, hh) if (not fails and twins_on) else None
    if twin is not None:
        fd2, tys2 = twin
        e2 = enc.encode(fd2, seed)
        full2 = {nm: proj.expected_elems(tys2[nm], list(e2.scaler_values.get(PATH[nm], {}).get(0, []))) for nm in tys2}
        sweep(e2.data, full2, tys2, structural(e2), "daqmx")
        obs["daqmx_twins"] = 1
    # twin 2: channels a segment does not write stay in its object list, declared "no data" (what LabVIEW does when a
    # channel pauses): same raw data, longer metadata
    fd3 = carry_twin(fd, hh) if (not fails and twins_on) else None
    if fd3 is not None:
        e3 = enc.encode(fd3, seed)
        full3 = {nm: proj.expected_elems(tys[nm], e3.values.get(PATH[nm], [])) for nm in tys}
        sweep(e3.data, full3, tys, structural(e3), "carried-no-data")
        obs["carried_twins"] = 1
    n = counter[0]
    key = zlib.crc32(repr(frec).encode())
    return {"n": n, "keys": [key], "fails": fails, "validated": 1, "obs": obs}
