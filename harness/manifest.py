"""Generates /verif/MANIFEST.json from one table, so that it is valid at all times:  python -m harness.manifest"""
import json
import os

ROOT = os.path.dirname(os.path.dirname(os.path.abspath(__file__)))

# id -> (technique, level text, level note, design ref)
CLAIMED = {
    "C01": ("TLA+ TdmsSegments (explicit layer): TLC enumerates well-formed files in four exhaustive slices (structure, types, properties, order x properties); every "
            "state (= every file prefix) replayed into TdmsFile.read/open and compared with the specification's view",
            "Model checking of the file-as-history state machine within small bounds plus spec->code conformance on "
            "every state: objects, group/channel order, implied groups, data type, length, bit-exact values for all "
            "17 types x contiguous/interleaved x multi-chunk x byte order, last-written properties.",
            "Trusted: TLC, ExplicitView as the definition of a file's meaning, independent encoder/projection "
            "(harness/enc.py, harness/proj.py), value concretisation per type.",
            "DESIGN.md 3.3, 5/C01"),
    "C02": ("TLA+ TdmsSegments: TLC model checking of reader model vs explicit meaning over all valid encodings; "
            "every reachable encoded file - and its DAQmx twin, padded-metadata, many-properties, 260-clone and 130-fold "
            "repeated variants - replayed into TdmsFile.read/open (spec->code conformance)",
            "Exhaustive model checking of the segment-inheritance state machine within small bounds (2-3 segments, "
            "2 channels, all per-object encodings x flags, strings, mixed byte order and raw data layout, a "
            "type-change slice, random walks of 7-10 segments), and every state of that model replayed into the real "
            "reader eagerly and lazily with the abstract view compared; forbidden encodings must raise.",
            "Trusted: TLC, the rewrite rules R1-R4 as the definition of a valid encoding, the independent byte "
            "encoder harness/enc.py and projection harness/proj.py.",
            "DESIGN.md 3.3, 5/C02"),
    "C03": ("TLA+ TdmsOpenFile: access-path table, chunk streams and offsets (invariant PathsAgree) checked by TLC; every "
            "enumerated two-channel shape (plain, DAQmx, terse encodings, scaled x) replayed through all access paths x "
            "memmap x raw_timestamps x path/pathlib/stream/file object/gzip object",
            "Model checking of the stream structure (offsets = running count, streams cover the channel) and "
            "spec->code conformance: every enabled access path (slice, ellipsis, read_data, data, iteration, integer "
            "indexing, both chunk streams, unscaled read, raw_data) must return the file's content, eager and lazy.",
            "Trusted: TLC, encoder. Non-raw timestamp representations are compared between paths (C12 owns accuracy); "
            "scaled/DAQmx channels go through the same paths in C13/C14/C11.",
            "DESIGN.md 3.4, 5/C03"),
    "C05": ("TLA+ TdmsOpenFile: TLC explores every interleaving (unbounded length) of index/window/generator operations "
            "over the finite hidden state (cursor, chunk cache, live generators) checking HistoryIndependentAct; "
            "behaviours (exhaustive short, simulated long) replayed on one TdmsFile.open object",
            "Full-state-graph model checking of the open-file state machine on shapes separating the mechanisms, plus "
            "spec->code conformance: each generated history is executed step by step on one open file and every "
            "result compared with the specification's (= fresh-file) result; generators must deliver every chunk.",
            "Trusted: TLC, encoder. Cursor positions abstracted to chunk boundaries; binding is on results only.",
            "DESIGN.md 3.4, 5/C05"),
    "C04": ("TLA+ TdmsData: TLC checks the algorithm model of read_raw_data_for_channel/_read_slice/"
            "read_channel_chunk_for_index against Python/NumPy indexing semantics over all shapes x requests; every "
            "shape with all its requests replayed into lazily opened and eagerly read files",
            "Exhaustive model checking within bounds (<=3-4 segments, chunk sizes <=3, <=3 chunks, truncated final "
            "chunk, channel absent per segment; all windows, slices, indices; plus long shapes of 101-230 segments "
            "with requests around the head and the tail, read after the other channel) plus spec->code conformance of every "
            "shape x request, lazy and eager, over random types/layouts/byte orders.",
            "Trusted: TLC, TdmsData.AbsWindow/SliceIndices/AbsIndex as transcription of Python semantics, encoder.",
            "DESIGN.md 3.4, 5/C04"),
    "C19": ("TLA+ TdmsData.FootprintBounded checked by TLC; traces of real stream reads (recording stream under "
            "TdmsFile.open) validated by TLC against Trace_Footprint.tla (code->spec trace validation)",
            "Model checking of the algorithm model's footprint plus trace validation: for every enumerated shape, all "
            "windows, slices and integer indices are executed on one open file (a plain or a genuine raw stream), narrow "
            "first requests on freshly opened files, and each step's (position,size) reads must "
            "lie in the chunks overlapping the request (own bytes only for contiguous layout) plus one 4-byte tag "
            "per segment touched; an index into the cached chunk must fetch nothing.",
            "Trusted: TLC, byte layout logged by the independent encoder, the recording stream.",
            "DESIGN.md 3.4, 5/C19"),
    "C06": ("TLA+ TdmsTruncate over TdmsLayout: TLC checks the reader model of clamping / dropped segment / partial final "
            "chunk against the statement's invariants for every cut of every enumerated file; every (file, cut) is "
            "replayed on the concrete bytes, eagerly and lazily, also as DAQmx twin and with carried no-data objects; "
            "TdmsSystem walks (write, crash, defragment, append, read)",
            "Exhaustive crash-point enumeration within bounds (1-2 segments, two channels, widths 1/4/8/16 and string, "
            "1-3 chunks, both layouts, metadata-less last segment, explicit offset or marker; every byte offset) with "
            "model checking of the reader model and spec->code conformance judged by the statement's own invariants "
            "on observed results.",
            "Trusted: TLC, TdmsLayout byte arithmetic (cross-checked against the encoder on every position), encoder.",
            "DESIGN.md 3.5, 5/C06"),
    "C07": ("TLA+ TdmsWriter composed with TdmsSegments (INSTANCE): TLC checks RoundTrip (reader model over emitted "
            "segments = what the caller asked to store) over all programs; every program executed with the real "
            "TdmsWriter (awkward concrete names, a process history, refused calls as stuttering steps, caller arrays "
            "compared before/after) and read back",
            "Model checking of the writer state machine (sessions, automatic root/group objects, ordering) and of the "
            "value-class -> TDMS-type case analysis, plus spec->code conformance for every enumerated program: "
            "channel data/dtype/length, property values and TDMS types (via independent parser), names, versions, "
            "append sessions, path and stream targets.",
            "Trusted: TLC, the spec's transcription of the documented type mapping, concrete value generators per "
            "class, parser, projection.",
            "DESIGN.md 3.7, 5/C07"),
    "C08": ("TLA+ TdmsWriter.ParentsFirst by TLC; parse events of the bytes TdmsWriter produced validated by TLC against "
            "Trace_Writer.tla (TDMS layout as recogniser; code->spec trace validation), incl. the index twin",
            "Trace validation of every program's output: lead-in offsets = bytes written, every length field = bytes "
            "that follow (raw index 20 / 28 for strings), raw data length = declared types x counts, root first, "
            "parents declared first, index file = data file without raw data and with TDSh (CRC per segment).",
            "Trusted: TLC, independent structural parser (harness/parser.py).",
            "DESIGN.md 3.2, 5/C08"),
    "C09": ("TLA+ TdmsIndexFile over TdmsTruncate/TdmsLayout: TLC checks that the metadata walk over the index stream with "
            "position translation equals the walk over the data file for every file and cut; every enumerated file "
            "replayed on disk with and without index (encoder- and TdmsWriter-produced) and index-only",
            "Model checking of the position-translation arithmetic (IndexTransparent, IndexPositions, "
            "IndexOnlyComplete) plus spec->code conformance: read / open / read_metadata give identical projections "
            "with and without the index (also for the DAQmx twin and padded metadata); the index alone (open / read / "
            "read_metadata / constructor from path, stream, file object) gives the same metadata and every data "
            "request - also one selecting no value - raises.",
            "Trusted: TLC, TdmsLayout arithmetic, encoder's index twin.",
            "DESIGN.md 3.6, 5/C09"),
    "C10": ("TLA+ TdmsDefragment (defragment as derived writer behaviour over TdmsSegments): TLC checks DefragPreserves "
            "over all enumerated source files; every source file run through the real TdmsWriter.defragment and "
            "compared with source, with the specification's view of the copy and with the encoder's known content "
            "(sources in both byte orders)",
            "Model checking of the copy's view against the source's view plus spec->code conformance on every source "
            "file: groups, channels, lengths, bit-identical raw values, raw-precision timestamp properties, data type "
            "when non-empty, scaled data; path and stream destinations, with and without index.",
            "Trusted: TLC, encoder, projection. One open known finding (with-unit float types, D12) is matched by "
            "its exact signature only.",
            "DESIGN.md 3.7, 5/C10"),
    "C16": ("TLA+ TdmsPath: encoder and the decoder automaton (character-pair scanner) model-checked for all 7311 paths "
            "with names <=3 over {quote, slash, space, letter}; the same set replayed through ObjectPath and end to end "
            "through TdmsWriter/TdmsFile; random unicode names validated by Trace_Path.tla",
            "Exhaustive model checking of Decode(Encode(g,c)) = <<g,c>> (hence injectivity) plus spec->code conformance "
            "of every path (encode, decode, kind flags) and end-to-end name/path/group_name/lookup/no-aliasing in "
            "batches of distinct names per file; code->spec trace validation for random unicode names.",
            "Trusted: TLC; the letter symbol stands for every character other than quote and slash.",
            "DESIGN.md 3.9, 5/C16"),
    "C11": ("TLA+ TdmsDaqmx: buffer/stride/offset layout and truncated-chunk rows model-checked; every enumerated "
            "configuration encoded with random buffer bytes and the values at the specification's positions compared "
            "with eager/lazy reads, windows, chunk streams and every cut of the final chunk",
            "Model checking of the position arithmetic (InBounds, TruncOK) plus spec->code conformance on every "
            "configuration: format-changing and digital-line scalers, 1-2 buffers with padding and differing lengths, "
            "1-2 channels x 1-2 scalers (in one buffer or split over two), multiple chunks, both byte orders, a "
            "short-reading raw stream; unscaled dict reads, raw_scaler_data, "
            "scaled reads of the last scaler, all windows, both chunk streams, truncation to complete rows.",
            "Trusted: TLC, encoder's DAQmx index encoding, independent fixed-width decode at computed positions.",
            "DESIGN.md 3.8, 5/C11"),
    "C12": ("TLA+ TdmsTime/BigNat (exact rational time in limb arithmetic): conversions recorded from the real code are "
            "validated by TLC against Trace_Time.tla; Apalache discharges the fraction lemmas over true 64-bit constants",
            "Code->spec trace validation of every recorded conversion: written (seconds, fractions) denote the "
            "microsecond and read back identically (1/16 stratified + fragile neighbours in quick, all 10^6 x 4 "
            "seconds in thorough), scalar = array, within one unit of the exact floor, monotone along sorted "
            "(seconds, fractions) incl. unit-boundary neighbours, raw timestamps bit-exact through write/read/"
            "defragment (multi-segment, eager / lazy / indexed one by one, big-endian files laid out by the encoder), "
            "conversions as a file hands them out, time_track for dyadic offsets.",
            "Trusted: TLC, Apalache, BigNat arithmetic, the harness's biasing of signed quantities; time_track for "
            "non-dyadic floats is not covered.",
            "DESIGN.md 3.10, 5/C12"),
    "C13": ("TLA+ TdmsScaling: dataflow evaluation of NI_Scale graphs, lookup channel->group->file, status / unsupported "
            "type, scale count given or inferred; TLC enumerates graphs x wiring x placement and the expected values; "
            "every case written as properties and read eagerly and lazily (full, window, slice, chunks, index)",
            "Exhaustive enumeration within bounds (1-3 scales over Linear/Polynomial/Table/no-op/Add/Subtract with every "
            "input-source wiring, small-integer coefficients so float64 is exact, 3-10 raw types, placement and "
            "shadowing across levels; sensor scales alone and with a linear scale, judged on purity / windows / dtype "
            "only) with spec->code conformance of values, elementwise-ness and purity (raw data "
            "unchanged before/after, in place and via unscaled reads).",
            "Trusted: TLC, integer arithmetic of the spec as the exact value of the float evaluation (small integers), "
            "encoder. Integer wrap-around in Add/Subtract on raw unsigned data is not judged.",
            "DESIGN.md 3.11, 5/C13"),
    "C14": ("TLA+ TdmsScaling.DType (NumPy promotion lattice transcribed) + per-type dtypes; TLC enumerates scaled cases "
            "(incl. sensor scales via dtype) and unscaled channels of all 17 types; every kind of read executed and "
            "its dtype / length compared with channel.dtype and the specification",
            "Spec->code conformance on every enumerated case x every read kind (full, ellipsis, window, slices, stepped, "
            "reversed, empty, beyond the end, both chunk streams, .data) x eager/lazy x zero-length twin x "
            "raw_timestamps: ndarray, dtype == channel.dtype == specification's dtype, full reads have len(channel).",
            "Trusted: TLC, the transcription of numpy.result_type for the 10 numeric types.",
            "DESIGN.md 3.11, 5/C14"),
    "C15": ("TLA+ TdmsSegments: byte order is an attribute of the encoding only; TLC enumerates per-segment byte-order "
            "assignments, each file replayed in 4 byte-order variants against the one specification view",
            "Model checking + spec->code conformance: all 2^k per-segment byte-order assignments (k<=2) over "
            "representative types of every kind, both layouts, and property values; all variants must read as the "
            "same view.",
            "Trusted: TLC, independent encoder's per-field byte swapping. DAQmx scalers under both byte orders are "
            "exercised by C11's check.",
            "DESIGN.md 3.3, 5/C15"),
    "C20": ("TLA+ TdmsLifecycle: descriptor table and API object state over source x index situation x fault stage; TLC "
            "checks NoLibraryFd / OnlyDataWhileLazy / ReadAfterCloseRaises on all behaviours; every behaviour replayed "
            "with an input built for its fault while /proc/self/fd and caller streams are inspected after each step",
            "Exhaustive model checking of the lifecycle state machine (read, read_metadata, open, data read, close, "
            "with-exit, repeated close, read after close, chunk generators resumed after close, the constructor with "
            "keep_open, defragment of good and faulty inputs and into a missing directory, an interrupt while reading, writer with-block with normal and raising body, "
            "re-entered writer, write after the block) plus "
            "spec->code conformance of every behaviour: which descriptors on the scratch .tdms/.tdms_index files are "
            "open after each step, which calls raise, caller streams (BytesIO and real files) never closed.",
            "Trusted: TLC, /proc/self/fd as the descriptor table, encoder-built malformed inputs. A raising "
            "TdmsFile.open(path) is outside the statement and only observed.",
            "DESIGN.md 3.12, 5/C20"),
}

PENDING = {}

NOT_APPLICABLE = {
    "C17": "real-valued sensor laws to 1e-6 relative accuracy: numeric accuracy has no TLA+/TLC counterpart "
           "(no reals/floats); a discrete abstraction would omit exactly the arithmetic the property is about "
           "(DESIGN.md section 6)",
    "C18": "equality of degree-8..14 floating-point polynomials with NIST reference functions on dense grids: "
           "numeric accuracy, outside what a TLA+ specification and TLC can decide (DESIGN.md section 6)",
}

ALL = ["C%02d" % i for i in range(1, 21)]


def build():
    checks = []
    for pid in ALL:
        if pid not in CLAIMED:
            continue
        tech, text, note, ref = CLAIMED[pid]
        checks.append({
            "property_id": pid,
            "quick_cmd": "./check %s --tier quick" % pid,
            "thorough_cmd": "./check %s --tier thorough" % pid,
            "evidence_file": "/verif/evidence/%s.json" % pid,
            "replay_cmd_template": "./check %s --replay {path}" % pid,
            "engine": "tlc+harness",
            "level_claimed": {"category": "model_checking", "text": text, "design_ref": ref},
            "level_note": note,
            "technique": tech,
        })
    na = []
    for pid in ALL:
        if pid in CLAIMED:
            continue
        reason = NOT_APPLICABLE.get(pid) or PENDING.get(pid) or \
            "check not yet built in this round (planned: see DESIGN.md section 5); not claimed until it exists"
        na.append({"property_id": pid, "reason": reason})
    hooks_commits = []
    hf = os.path.join(ROOT, "hooks_commits.txt")
    if os.path.exists(hf):
        hooks_commits = [l.strip() for l in open(hf) if l.strip()]
    doc = {
        "version": 1,
        "setup_cmd": "./setup.sh",
        "hooks": {
            "guard": "NPTDMS_VERIF",
            "enable": "environment variable NPTDMS_VERIF=1 (pure Python package: nothing to rebuild; checks import "
                      "npTDMS from /repo's working tree via PYTHONPATH). No verdict depends on a hook.",
            "baseline_off_cmd": "cd /repo && env -u NPTDMS_VERIF /venv/bin/python -m pytest -ra -q -p no:cacheprovider "
                                "--timeout=900 --continue-on-collection-errors",
            "source_commits": hooks_commits,
            "add_only": True,
        },
        "engines": [
            {"name": "tlc+harness", "path": "/verif/check",
             "serves_properties": [c["property_id"] for c in checks],
             "kind_free_text": "TLA+ specifications in /verif/spec checked with TLC; behaviours generated by TLC are "
                               "replayed into npTDMS (GEN) and traces recorded from npTDMS are validated by TLC "
                               "(TRACE); Python only encodes abstract inputs, projects results and compares JSON"},
        ],
        "checks": checks,
        "not_applicable": na,
        "notes": "One specification suite (spec/*.tla), three uses: MC, GEN (spec->code), TRACE (code->spec). "
                 "See DESIGN.md.",
    }
    return doc


if __name__ == "__main__":
    doc = build()
    with open(os.path.join(ROOT, "MANIFEST.json"), "w") as fh:
        json.dump(doc, fh, indent=1)
    try:
        import jsonschema
        jsonschema.validate(doc, json.load(open("/root/.vp/MANIFEST.schema.json")))
        print("MANIFEST.json valid; claimed:", [c["property_id"] for c in doc["checks"]])
    except ImportError:
        print("MANIFEST.json written (jsonschema not available to validate)")
