"""Replay of TdmsOpenFile behaviours (C05, C03): a history of read operations on ONE lazily opened two-channel file."""
import io
import zlib

from . import enc, proj
from .datafile import SIZED, NONE, perform, _h

X = "/'grp'/'x'"
Y = "/'grp'/'y'"


DAQMX_TYPES = ["Uint8", "Int8", "Uint16", "Int16", "Uint32", "Int32", "Uint64", "Int64", "SingleFloat", "DoubleFloat"]


def build_file2(shape, seed=0, variant=0):
    il = bool(shape["il"])
    h = _h(seed, variant, repr(shape))
    segs = shape["segs"]
    trunc = any(s["lastx"] < s["nx"] or s["lasty"] < s["ny"] for s in segs)
    # one file in six stores the two channels as DAQmx raw data (one raw buffer per channel, one scaler each);
    # chunking and truncation behave like the contiguous layout [x, y]
    if not il and (h // 11) % 6 == 0:
        return build_file2_daqmx(shape, h)
    cands = list(SIZED) + ([] if (il or trunc) else ["String"])
    xt = cands[h % len(cands)]
    yt = cands[(h // 37) % len(cands)]
    if (h // 13) % 4 == 0:
        # the files whose x carries a scaling take x's type from the types that scale exactly (float64 among them)
        xt = sorted(SCALABLE)[(h // 53) % len(SCALABLE)]
    be = (h // 3) % 2 == 1
    list_absent = (h // 5) % 2 == 1     # a channel without data in a segment is listed "no data" (else: not listed)
    out = []
    for j, s in enumerate(segs):
        objs, listed = [], []
        is_trunc = s["lastx"] < s["nx"] or s["lasty"] < s["ny"]
        # in complete segments the two channels are stored in either order (a new object list may reorder them)
        order = [(X, "nx", xt), (Y, "ny", yt)]
        if not is_trunc and (_h(h, j) // 3) % 2 == 1:
            order.reverse()
        for (pth, key, t) in order:
            if s[key] > 0:
                objs.append({"p": pth, "has": True, "n": s[key], "ty": t})
                listed.append({"p": pth, "kind": "full"})
            elif list_absent:
                objs.append({"p": pth, "has": False, "n": 0, "ty": t})
                listed.append({"p": pth, "kind": "nodata"})
        seg = {"meta": True, "newlist": True, "be": be, "il": il, "listed": listed, "objs": objs, "k": s["k"]}
        if s["lastx"] < s["nx"] or s["lasty"] < s["ny"]:
            sx, sy = enc.size_of(xt), enc.size_of(yt)
            if il:
                drop = (s["nx"] - s["lastx"]) * (sx + (sy if s["ny"] else 0))
            else:
                drop = (s["nx"] - s["lastx"]) * sx + (s["ny"] - s["lasty"]) * sy
            seg["drop"] = drop
            seg["declare_full"] = True
        out.append(seg)
    scaled_x = (h // 13) % 4 == 0 and xt in SCALABLE
    if scaled_x:
        # x carries a Linear scaling (2 v + 1), y none: what was read from x must not rub off on y
        import struct
        for seg in out:
            ent = [e_ for e_ in seg["listed"] if e_["p"] == X]
            if ent:
                ent[0]["props"] = [
                    ["NI_Scaling_Status", "String", "unscaled"],
                    ["NI_Number_Of_Scales", "Uint32", (1).to_bytes(4, "little")],
                    ["NI_Scale[0]_Scale_Type", "String", "Linear"],
                    ["NI_Scale[0]_Linear_Slope", "DoubleFloat", struct.pack("<d", 2.0)],
                    ["NI_Scale[0]_Linear_Y_Intercept", "DoubleFloat", struct.pack("<d", 1.0)],
                    ["NI_Scale[0]_Linear_Input_Source", "Uint32", (0xFFFFFFFF).to_bytes(4, "little")]]
                break
    if (h // 7) % 2 == 1:
        inherit_encoding(out)
    return {"segs": out}, {"xtype": xt, "ytype": yt, "be": be, "inherit": (h // 7) % 2 == 1, "scaled_x": scaled_x}


SCALABLE = {"Int8", "Int16", "Int32", "Uint8", "Uint16", "Uint32", "DoubleFloat"}     # exact in float64


def expected_channel_elems(info, nm, ty, values):
    """what reading these values of channel nm returns: the stored values, or 2 v + 1 as float64 for a scaled x"""
    if nm == "x" and info.get("scaled_x"):
        import numpy as np
        raw = np.frombuffer(b"".join(values), dtype=enc.NPTYPE[ty]) if values else np.zeros(0, dtype=enc.NPTYPE[ty])
        return proj.elems(raw.astype("<f8") * 2.0 + 1.0)
    return proj.expected_elems(ty, values)


def inherit_encoding(segs):
    """Rewrite the metadata of a file given with explicit segments into the terser encodings TdmsSegments.tla allows
    (R1-R4): an unchanged index becomes "same as before", and when the object list only grows at its end the
    kTocNewObjList flag is dropped and unchanged objects are not listed at all.  String indexes carry a byte total
    that differs from segment to segment, so they are always written out."""
    last_index = {}
    prev = None
    for seg in segs:
        cur = [(o["p"], o["has"], o["n"], o["ty"]) for o in seg["objs"]]
        if prev is not None and [c[0] for c in cur][:len(prev)] == [c[0] for c in prev]:
            seg["newlist"] = False
            state = {c[0]: c for c in prev}
        else:
            state = {}
        listed = []
        props = {e_["p"]: e_.get("props") for e_ in seg["listed"] if e_.get("props")}
        for c in cur:
            p, has, n, ty = c
            if ty != "String" and state.get(p) == c and p not in props:
                continue
            if not has:
                listed.append({"p": p, "kind": "nodata"})
            elif ty != "String" and last_index.get(p) == (n, ty):
                listed.append({"p": p, "kind": "same"})
            else:
                listed.append({"p": p, "kind": "full"})
            if p in props:
                listed[-1]["props"] = props[p]
        for c in cur:
            if c[1]:
                last_index[c[0]] = (c[2], c[3])
        seg["listed"] = listed
        prev = cur


def build_file2_daqmx(shape, h):
    xt = DAQMX_TYPES[h % len(DAQMX_TYPES)]
    yt = DAQMX_TYPES[(h // 37) % len(DAQMX_TYPES)]
    be = (h // 3) % 2 == 1
    sx, sy = enc.size_of(xt), enc.size_of(yt)
    props = [["NI_Scaling_Status", "String", "unscaled"], ["NI_Number_Of_Scales", "Uint32", (1).to_bytes(4, "little")]]
    out = []
    for j, s in enumerate(shape["segs"]):
        present = [(X, "nx", "lastx", xt, sx), (Y, "ny", "lasty", yt, sy)]
        present = [p for p in present if s[p[1]] > 0]
        widths = [p[4] + (_h(h, j, p[0]) % 3) for p in present]           # padding 0..2 bytes per row
        objs, listed = [], []
        for b, (pth, key, lkey, t, sz) in enumerate(present):
            d = {"kind": "fc", "widths": widths,
                 "scalers": [{"id": 0, "ty": t, "buf": b, "off": widths[b] - sz if (_h(h, j) % 2) else 0}]}
            objs.append({"p": pth, "has": True, "n": s[key], "ty": None, "daqmx": d})
            listed.append({"p": pth, "kind": "full", "props": props})
        seg = {"meta": True, "newlist": True, "be": be, "il": False, "listed": listed, "objs": objs, "k": s["k"]}
        if s["lastx"] < s["nx"] or s["lasty"] < s["ny"]:
            drop = 0
            for b, (pth, key, lkey, t, sz) in enumerate(present):
                drop += (s[key] - s[lkey]) * widths[b]
            seg["drop"] = drop
            seg["declare_full"] = True
        out.append(seg)
    return {"segs": out}, {"xtype": xt, "ytype": yt, "be": be, "daqmx": True}


def channel_values(e, path):
    """values of a channel in file order, whether stored as plain or as DAQmx raw data (single scaler, id 0)"""
    if path in e.scaler_values:
        return list(e.scaler_values[path].get(0, []))
    return e.values.get(path, [])


def _chunk_obs(chunk, ty):
    data = proj.elems(chunk[:])
    # a chunk is a value: looking at it again (whole, first, last element) shows the same contents
    again = proj.elems(chunk[:])
    ends = [proj._scalar(chunk[0]), proj._scalar(chunk[-1])] if len(chunk) else []
    stable = again == data and ends == ([data[0], data[-1]] if data else [])
    out = {"offset": chunk.offset, "data": data, "len": len(chunk)}
    if not stable:
        out["unstable"] = {"again": again[:4], "ends": ends}
    return out


def replay_history_case(case):
    from nptdms import TdmsFile
    rec = case["rec"]
    seed = case["seed"]
    shape = rec["shape"]
    fd, info = build_file2(shape, seed, case.get("variant", 0))
    e = enc.encode(fd, seed)
    vals = {"x": channel_values(e, X)[:rec["lenx"]], "y": channel_values(e, Y)[:rec["leny"]]}
    tys = {"x": info["xtype"], "y": info["ytype"]}
    fails = []
    f = TdmsFile.open(io.BytesIO(e.data), raw_timestamps=True)
    chans = {}
    if "grp" in f:
        for nm in ("x", "y"):
            if nm in f["grp"]:
                chans[nm] = f["grp"][nm]
    iters = {}
    delivered = {}
    obs = {}
    n = 0
    # what every generator yields on a FRESH file (non-empty chunks), checked once against the file's content:
    # concatenation = the channel's data, offsets = running count
    fresh = {}
    f0 = TdmsFile.open(io.BytesIO(e.data), raw_timestamps=True)
    for nm in ("x", "y"):
        seq = []
        if "grp" in f0 and nm in f0["grp"]:
            seq = [{nm: _chunk_obs(c, tys[nm])} for c in f0["grp"][nm].data_chunks() if len(c) > 0]
        fresh[("chan", nm)] = seq
        run, cat = 0, []
        for item in seq:
            if item[nm]["offset"] != run:
                fails.append(({"kind": "fresh-stream", "stream": "channel"}, {"shape": shape, "channel": nm,
                                                                               "offset": item[nm]["offset"], "run": run}))
            cat.extend(item[nm]["data"])
            run += item[nm]["len"]
        if cat != expected_channel_elems(info, nm, tys[nm], vals[nm]):
            fails.append(({"kind": "fresh-stream", "stream": "channel", "what": "content"},
                          {"shape": shape, "info": info, "channel": nm, "hex": e.data.hex()}))
    seq = []
    runs = {"x": 0, "y": 0}
    for dc in f0.data_chunks():
        parts = {nm: _chunk_obs(dc["grp"][nm], tys[nm]) for nm in ("x", "y") if "grp" in f0 and nm in f0["grp"]}
        if not parts or all(p["len"] == 0 for p in parts.values()):
            continue
        for nm, p in parts.items():
            if p["len"] and p["offset"] != runs[nm]:
                fails.append(({"kind": "fresh-stream", "stream": "file"}, {"shape": shape, "channel": nm,
                                                                            "offset": p["offset"], "run": runs[nm]}))
            runs[nm] += p["len"]
        seq.append(parts)
    fresh[("file", "")] = seq
    f0.close()
    for key_, seq_ in fresh.items():
        for item in seq_:
            for nm_, part in item.items():
                if "unstable" in part:
                    fails.append(({"kind": "fresh-stream", "stream": key_[0], "what": "chunk contents change when looked at again"},
                                  {"shape": shape, "info": info, "channel": nm_, "chunk": part, "hex": e.data.hex()}))

    def fail(i, o, exp, got):
        fails.append(({"kind": "history", "op": o["op"], "iter_kind": o.get("kind", "")},
                      {"shape": shape, "info": info, "seed": seed, "variant": case.get("variant", 0),
                       "hist": rec["hist"][:i + 1], "expected": exp, "observed": got, "hex": e.data.hex()}))

    hkey = zlib.crc32(repr(shape).encode()) + seed
    for i, o in enumerate(rec["hist"]):
        op = o["op"]
        n += 1
        if op in ("index", "window", "slice"):
            ch = chans.get(o["ch"])
            if ch is None:
                continue
            req = {"kind": op}
            req.update({k: o[k] for k in ("i", "off", "len", "start", "stop", "step") if k in o})
            unscaled = op == "window" and o["off"] >= 0 and (hkey + i) % 3 == 0
            if unscaled:
                # the same window asked for with scaled=False: the stored values (DAQmx: those of scaler 0)
                try:
                    r_ = ch.read_data(o["off"], None if o["len"] == NONE else o["len"], scaled=False)
                    if isinstance(r_, dict):
                        r_ = r_.get(0, [])
                    got = {"data": proj.elems(r_)}
                except Exception as ex:  # noqa
                    got = {"err": type(ex).__name__, "msg": str(ex)}
            else:
                got = perform(ch, req)
            if op == "window" and o["off"] < 0:
                # outside C04's domain (offset >= 0): what matters here is only that the request behaves as on a fresh
                # file and leaves no state behind; the oracle is the same request on a freshly opened file
                ff = TdmsFile.open(io.BytesIO(e.data), raw_timestamps=True)
                exp = perform(ff["grp"][o["ch"]], req)
                ff.close()
                exp.pop("msg", None)
                g2 = dict(got)
                g2.pop("msg", None)
                if g2 != exp:
                    fail(i, o, exp, got)
                    break
                continue
            if o["res"]["err"]:
                exp = {"err": o["res"]["err"]}
                ok = got.get("err") == exp["err"]
            else:
                sel = [vals[o["ch"]][t] for t in o["res"]["vals"]]
                exp = {"data": proj.expected_elems(tys[o["ch"]], sel) if unscaled else
                       expected_channel_elems(info, o["ch"], tys[o["ch"]], sel)}
                ok = got.get("data") == exp["data"]
            if not ok:
                fail(i, o, exp, got)
                break
        elif op == "iternew":
            delivered[o["it"]] = 0
            if o["kind"] == "chan":
                ch = chans.get(o["ch"])
                iters[o["it"]] = iter(ch.data_chunks()) if ch is not None else iter(())
            else:
                iters[o["it"]] = iter(f.data_chunks())
        elif op == "next":
            # fresh-file equivalence, independent of where the library puts chunk boundaries: the k-th non-empty
            # chunk of a generator must be the k-th non-empty chunk the same generator yields on a fresh file
            it = iters[o["it"]]
            kind = o["kind"]
            ref = fresh[("chan", o["ch"])] if kind == "chan" else fresh[("file", "")]
            k = delivered.get(o["it"], 0)
            got = None
            try:
                while True:
                    chunk = next(it)
                    if kind == "chan":
                        if len(chunk) == 0:
                            continue
                        got = {o["ch"]: _chunk_obs(chunk, tys[o["ch"]])}
                    else:
                        parts = {nm: _chunk_obs(chunk["grp"][nm], tys[nm]) for nm in ("x", "y") if nm in chans}
                        if all(p["len"] == 0 for p in parts.values()):
                            continue
                        got = parts
                    break
            except StopIteration:
                got = "stop"
            except Exception as ex:  # noqa
                got = {"exception": "%s: %s" % (type(ex).__name__, ex)}
            want = ref[k] if k < len(ref) else "stop"
            if got != "stop" and not (isinstance(got, dict) and "exception" in got):
                delivered[o["it"]] = k + 1
            if got != want:
                fail(i, o, want, got)
                break
            if (got == "stop") != bool(o["res"]["stop"]):
                obs["chunking_differs_from_model"] = obs.get("chunking_differs_from_model", 0) + 1
    f.close()
    key = zlib.crc32(repr((shape, [(o["op"], o.get("ch"), o.get("i"), o.get("off"), o.get("len"), o.get("it"), o.get("start"), o.get("stop"), o.get("step"))
                                  for o in rec["hist"]])).encode())
    nontrivial = sum(1 for o in rec["hist"] if o["op"] in ("index", "window", "slice", "next")) >= 2
    return {"n": n, "keys": [key] if nontrivial else [], "fails": fails, "validated": 1, "obs": obs}
