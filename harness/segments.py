"""GEN replay for TdmsSegments behaviours: abstract (encoded) file -> bytes -> real reader -> projection -> compare
with the specification's ExplicitView.  Used by C01, C02, C15 (and as file source for others)."""
import io
import zlib

from . import enc, proj

PROP_TYPES = ["Int32", "String", "DoubleFloat", "Boolean", "TimeStamp", "Uint8", "Int64", "Uint64", "SingleFloat",
              "Int8", "Int16", "Uint16", "Uint32"]

WIDTH_CLASS = {
    1: ["Int8", "Uint8", "Boolean"],
    2: ["Int16", "Uint16"],
    4: ["Int32", "Uint32", "SingleFloat", "SingleFloatWithUnit"],
    8: ["Int64", "Uint64", "DoubleFloat", "DoubleFloatWithUnit", "ComplexSingleFloat"],
    16: ["TimeStamp", "ComplexDoubleFloat"],
}


def rotation(r):
    """bijective, width-preserving renaming of types (multiplies type coverage at no cost to TLC)"""
    m = {}
    for w, names in WIDTH_CLASS.items():
        for i, nm in enumerate(names):
            m[nm] = names[(i + r) % len(names)]
    m["String"] = "String"
    return m


def case_hash(rec):
    return zlib.crc32(repr(rec.get("file")).encode())


def prop_concrete(name, tok, seed, salt=0):
    """type and value of the property (name, value token): the salt (a hash of the file) walks every property type and
    many values over the files of a run"""
    pty = PROP_TYPES[(zlib.crc32(("%s/%s/%d" % (name, tok, seed)).encode()) + salt) % len(PROP_TYPES)]
    idx = (zlib.crc32(str(tok).encode()) + salt // 13) % 50
    val = enc.value(pty, "prop:" + name, idx, seed, width=idx)
    return pty, val


DAQMX_OK = {"Uint8", "Int8", "Uint16", "Int16", "Uint32", "Int32", "Uint64", "Int64", "SingleFloat", "DoubleFloat"}


def daqmx_plan(rec, typemap=None):
    """The same abstract file stored as DAQmx raw data: every channel gets a raw buffer of its own (fixed for the whole
    file, so that inherited indexes stay meaningful) and one format-changing scaler.  -> {path: (buffer, type)} or None
    when the file has no such twin (interleaved segments, strings, wide types, a channel that changes type)."""
    tm = typemap or {}
    rejected = rec["status"] != "ok"          # forbidden encodings have DAQmx twins too (a scaler that changes its type)
    tys = {}
    for s in rec["file"]:
        if s["il"]:
            return None
        for o in s["layout"]:
            if o["p"].count("/") == 2:
                tys.setdefault(o["p"], set())
                if o["ty"] != "none":
                    tys[o["p"]].add(tm.get(o["ty"], o["ty"]))
        for e in s["listed"]:
            if e["kind"] == "full":
                tys.setdefault(e["p"], set()).add(tm.get(e["ty"], e["ty"]))
    if not tys or any(not t <= DAQMX_OK for t in tys.values()):
        return None
    if not rejected and any(len(t) > 1 for t in tys.values()):
        return None
    return {p: (b, (sorted(tys[p]) or [None])[0]) for b, p in enumerate(sorted(tys))}


MANY = 300


def many_props(seed):
    """MANY further properties (all TDMS property types in turn, one of them a string of more than 255 bytes) for the
    first object the file lists: more than 255 of a kind"""
    out = []
    for j in range(MANY):
        pty = PROP_TYPES[j % len(PROP_TYPES)]
        val = enc.value(pty, "prop:many", j, seed, width=j % 9)
        if pty == "String" and j == 1:
            val = val + "long" * 80
        out.append(["many%03d" % j, pty, val])
    return out


def to_fd(rec, seed=0, typemap=None, flip_be=None, daqmx=None, manyprops=False):
    """GEN record -> encoder file description.  flip_be: None | "le" | "be" | "swap" (C15 variants)."""
    tm = typemap or {}
    h = case_hash(rec)
    widths = [8 + (h + 3 * b) % 3 for b in range(len(daqmx))] if daqmx else None
    segs = []
    for s in rec["file"]:
        be = bool(s["be"])
        if flip_be == "le":
            be = False
        elif flip_be == "be":
            be = True
        elif flip_be == "swap":
            be = not be
        listed = []
        for e in s["listed"]:
            props = []
            for (nm, tok) in (e.get("props") or []):
                pty, val = prop_concrete(nm, tok, seed, h)
                props.append([nm, pty, val])
            ent = {"p": e["p"], "kind": e["kind"], "props": props}
            if e["kind"] == "full":
                ent["n"] = e["n"]
                ent["ty"] = tm.get(e["ty"], e["ty"])
            listed.append(ent)
        objs = [{"p": o["p"], "has": bool(o["has"]), "n": o["n"], "sv": o.get("sv", 0),
                 "ty": (None if o["ty"] == "none" else tm.get(o["ty"], o["ty"]))} for o in s["layout"]]
        if manyprops and not segs and listed:
            listed[0]["props"] = many_props(seed) + listed[0]["props"]
        segs.append({"meta": bool(s["meta"]), "newlist": bool(s["newList"]), "be": be, "il": bool(s["il"]),
                     "listed": listed, "objs": objs, "k": s["k"]})
        if daqmx:
            for o in objs:
                if o["p"] in daqmx and daqmx[o["p"]][1]:
                    b, t = daqmx[o["p"]]
                    t = o["ty"] or t          # the scaler has the type this segment gives the channel
                    o["daqmx"] = {"kind": "fc", "widths": widths,
                                  "scalers": [{"id": 0, "ty": t, "buf": b,
                                               "off": (widths[b] - enc.size_of(t)) if (h + b) % 2 else 0}]}
                    o["ty"] = None
    return {"segs": segs}


def expected_props(rec, seed):
    out = {}
    props = rec["view"]["props"]
    if isinstance(props, list):
        props = {}
    for p, m in props.items():
        d = {}
        if isinstance(m, dict):
            for nm, tok in m.items():
                pty, val = prop_concrete(nm, tok, seed, case_hash(rec))
                d[nm] = proj.expected_prop_canon(pty, val)
        out[p] = d
    return out


def _as_dict(x):
    return {} if isinstance(x, list) else x


def compare_view(rec, e, view, seed, typemap=None, mode="eager", daqmx=None, manyprops=False):
    """Compare the projection of what the library returned with the specification's view.
    Returns list of (field, expected, observed) differences."""
    tm = typemap or {}
    v = rec["view"]
    diffs = []
    if view["groups"] != v["groups"]:
        diffs.append(("groups", v["groups"], view["groups"]))
    gch = _as_dict(v["gchans"])
    for g in v["groups"]:
        if view["gchans"].get(g) != gch.get(g, []):
            diffs.append(("gchans:" + g, gch.get(g), view["gchans"].get(g)))
    lens = _as_dict(v["len"])
    tys = _as_dict(v["ty"])
    for c, n in lens.items():
        got = view["chans"].get(c)
        if got is None:
            diffs.append(("missing:" + c, n, None))
            continue
        ty = tys[c]
        ty = None if ty == "none" else tm.get(ty, ty)
        vals = e.values.get(c, [])
        if daqmx:
            vals = list(e.scaler_values.get(c, {}).get(0, []))
        if len(vals) != n:
            raise AssertionError("specification length %d and encoder length %d disagree for %s" % (n, len(vals), c))
        if got["len"] != n:
            diffs.append(("len:" + c, n, got["len"]))
        if got["ty"] != (ty if not daqmx or ty is None else "DaqMxRawData"):
            diffs.append(("ty:" + c, ty, got["ty"]))
        if "error" in got:
            diffs.append(("read:" + c, "data", got["error"]))
            continue
        if ty is not None:
            exp = proj.expected_elems(ty, vals)
            if got.get("data") != exp:
                diffs.append(("data:" + c, exp[:8], (got.get("data") or [])[:8]))
            ed = proj.expected_dtype(ty, raw_timestamps=True)
            if got.get("dtype") != ed:
                diffs.append(("dtype:" + c, ed, got.get("dtype")))
        else:
            if got.get("data") not in ([], None):
                diffs.append(("data:" + c, [], got.get("data")))
    if view.get("api"):
        diffs.append(("api", [], view["api"]))
    if view.get("version") != 4713:
        diffs.append(("version", 4713, view.get("version")))       # the encoder writes every segment as version 4713
    extra = set(view["chans"]) - set(lens)
    if extra:
        diffs.append(("invented-channels", [], sorted(extra)))
    ep = expected_props(rec, seed)
    if manyprops and rec["file"] and rec["file"][0]["listed"]:
        first = rec["file"][0]["listed"][0]["p"]
        extra = {nm: proj.expected_prop_canon(pty, val) for nm, pty, val in many_props(seed)}
        extra.update(ep.get(first, {}))
        ep[first] = extra
    for p in v["order"]:
        if view["props"].get(p) != ep.get(p, {}):
            diffs.append(("props:" + p, ep.get(p, {}), view["props"].get(p)))
    return diffs


def project_daqmx(f):
    """as proj.project_file, the data being the raw values of scaler 0 (read_data(scaled=False))"""
    view = proj.project_file(f, data=False)
    for g in f.groups():
        for c in g.channels():
            ch = view["chans"][c.path]
            try:
                arr = c.read_data(scaled=False)
                if isinstance(arr, dict):
                    arr = arr.get(0, [])
                if arr is None:
                    arr = []
                if hasattr(arr, "dtype"):
                    ch["dtype"] = proj.norm_dtype(arr.dtype)
                ch["data"] = proj.elems(arr)
            except Exception as ex:  # noqa
                ch["error"] = "%s: %s" % (type(ex).__name__, ex)
    return view


def read_modes(data, modes, TdmsFile, daqmx=False, short=None):
    """-> {mode: view | {"exception": ...}}; short = raw data regions: also an eager read through a raw stream that
    delivers raw data seven bytes at a time"""
    out = {}
    project = project_daqmx if daqmx else proj.project_file
    if short is not None and "eager" in modes:
        modes = list(modes) + ["eager-short"]
    for mode in modes:
        try:
            if mode == "eager-short":
                from .recstream import ShortReadStream
                f = TdmsFile.read(ShortReadStream(data, short, 7), raw_timestamps=True)
                out[mode] = project(f)
            elif mode == "eager":
                f = TdmsFile.read(io.BytesIO(data), raw_timestamps=True)
                out[mode] = project(f)
            elif mode == "lazy":
                with TdmsFile.open(io.BytesIO(data), raw_timestamps=True) as f:
                    out[mode] = project(f)
            elif mode == "meta":
                f = TdmsFile.read_metadata(io.BytesIO(data), raw_timestamps=True)
                out[mode] = proj.project_file(f, data=False)
        except Exception as ex:  # noqa
            out[mode] = {"exception": "%s: %s" % (type(ex).__name__, ex)}
    return out


def file_signature(rec, diffs, mode, typemap=None):
    """small abstract description of a failing case, for known-findings matching and the VIOLATION line"""
    tm = typemap or {}
    tys = sorted(set(tm.get(t, t) for t in _as_dict(rec["ty"]).values()))
    return {"kind": "view-mismatch", "mode": mode, "fields": sorted(set(d[0].split(":")[0] for d in diffs)),
            "types": tys, "interleaved": any(s["il"] for s in rec["file"]),
            "nsegs": len(rec["file"])}


def widen(rec, factor):
    """The same abstract file with every channel replaced by `factor` clones (distinct names, same structure): breaks the
    small-scope bound on the number of objects (more than 255 / 65535 of something) without changing what the
    specification says about each channel."""
    import copy

    def clones(p):
        if p.count("/") != 2:
            return [p]
        return [p[:-1] + "#%d'" % i for i in range(factor)]
    out = copy.deepcopy(rec)
    for s in out["file"]:
        for key in ("listed", "layout"):
            new = []
            for e in s[key]:
                for q in clones(e["p"]):
                    e2 = dict(e)
                    e2["p"] = q
                    new.append(e2)
            s[key] = new
        s["bytes"] = s.get("bytes", 0) * factor
    v = out["view"]
    v["order"] = [q for p in v["order"] for q in clones(p)]
    for key in ("len", "ty"):
        d = _as_dict(v[key])
        v[key] = {q: val for p, val in d.items() for q in clones(p)}
    d = _as_dict(v["gchans"])
    v["gchans"] = {g: [q for p in lst for q in clones(p)] for g, lst in d.items()}
    d = _as_dict(v["props"])
    v["props"] = {q: val for p, val in d.items() for q in clones(p)}
    d = _as_dict(out["ty"])
    out["ty"] = {q: val for p, val in d.items() for q in clones(p)}
    return out


def repeated(rec, m):
    """The file written m times over, back to back (F F ... F): when F's first segment restarts the object list and
    states every index in full, the copies add up - every channel m times as long, same order, types and properties.
    More than 255 segments without asking TLC for a behaviour that long.  None if F does not start that way."""
    import copy
    f = rec["file"]
    if rec["status"] != "ok" or not f or not f[0]["meta"] or not f[0]["newList"]:
        return None
    if any(e["kind"] == "same" for e in f[0]["listed"]):
        return None
    out = copy.deepcopy(rec)
    out["file"] = [copy.deepcopy(s) for _ in range(m) for s in f]
    v = out["view"]
    v["len"] = {c: n * m for c, n in _as_dict(v["len"]).items()}
    return out


def replay_segments_case(case):
    """worker: case = {"rec": GEN record, "seed": int, "modes": [...], "rot": int, "be_variants": [...]}"""
    from nptdms import TdmsFile
    rec = case["rec"]
    seed = case["seed"]
    if not rec["file"]:
        return {"n": 0, "keys": [], "fails": [], "validated": 0}   # zero bytes are not a TDMS file
    if case.get("widen") and not any(s_["il"] and o["has"] and o["ty"] == "String" for s_ in rec["file"] for o in s_["layout"]):
        # (a lone string channel in an "interleaved" segment is a legal file; 260 of them are not)
        rec = widen(rec, case["widen"])
    if case.get("repeat"):
        rec = repeated(rec, case["repeat"]) or rec
    tm = rotation(case.get("rot", 0)) if case.get("rot") else None
    mp = bool(case.get("manyprops"))
    fails = []
    n = 0
    keys = []
    variants = [(f_, None) for f_ in (case.get("be_variants") or [None])]
    plan = daqmx_plan(rec, tm) if case.get("daqmx") else None
    if plan:
        variants.append((None, plan))
    for flip, dq in variants:
        fd = to_fd(rec, seed, tm, flip_be=flip, daqmx=dq, manyprops=mp)
        if case.get("metapad"):
            for j_, sg_ in enumerate(fd["segs"]):
                if sg_["meta"] and (j_ + case["metapad"]) % 2 == 0:
                    sg_["metapad"] = 1 + (case["metapad"] + 3 * j_) % 9
        e = enc.encode(fd, seed)
        short = [(sg_["dataPos"], sg_["nextPos"]) for sg_ in e.segs] \
            if (case_hash(rec) // 3) % 7 == 0 and rec["status"] == "ok" and \
            not any(o["ty"] == "String" for sg_ in rec["file"] for o in sg_["layout"]) else None
        # (texts are read with file.read, which a raw stream may cut short like any metadata read: the library loops only
        # for fixed-width data, so files holding strings are not read this way)
        res = read_modes(e.data, case["modes"], TdmsFile, daqmx=bool(dq), short=short)
        for mode, view in res.items():
            n += 1
            if rec["status"] == "rejected":
                if "exception" not in view:
                    fails.append(({"kind": "forbidden-accepted", "mode": mode, "daqmx": bool(dq)},
                                  {"case": rec, "seed": seed, "rot": case.get("rot", 0), "flip": flip,
                                   "hex": e.data.hex(), "observed": view}))
                continue
            if "exception" in view:
                sig = file_signature(rec, [("exception",)], mode, tm)
                sig["exception"] = view["exception"].split(":")[0]
                fails.append((sig, {"case": rec, "seed": seed, "rot": case.get("rot", 0), "flip": flip, "mode": mode,
                                    "hex": e.data.hex(), "exception": view["exception"]}))
                continue
            diffs = compare_view(rec, e, view, seed, tm, mode, daqmx=dq, manyprops=mp)
            if dq:
                diffs = [d for d in diffs if not (d[0].startswith("dtype") and d[2] is None)]
            if mode == "meta":
                diffs = [d for d in diffs if not d[0].startswith(("data", "dtype"))]
            if diffs:
                sg = file_signature(rec, diffs, mode, tm)
                if dq:
                    sg["daqmx"] = True
                fails.append((sg, {"case": rec, "seed": seed, "rot": case.get("rot", 0), "flip": flip, "mode": mode,
                                   "daqmx": bool(dq), "hex": e.data.hex(), "diffs": diffs[:6]}))
    nontrivial = any(s["k"] > 0 for s in rec["file"])
    if nontrivial:
        keys.append(case_hash(rec))
    return {"n": n, "keys": keys, "fails": fails, "validated": 1}


def big_interleaved_check():
    """One interleaved segment too large for any internal batch size (two Int32 channels, 17 chunks of 65537 rows: more
    than 2^20 values per channel, more than 8 MiB of raw data), laid out with struct / NumPy only.  Eager read, file-level
    and channel-level chunk streams and a lazy read must all return the values that were laid out.
    -> list of (signature, bundle)"""
    import struct
    import numpy as np
    from nptdms import TdmsFile
    n, k = 65537, 17
    N = n * k
    a = (np.arange(N, dtype=np.int64) * 7 + 3).astype("<i4")
    b = (np.arange(N, dtype=np.int64) * -5 + 11).astype("<i4")

    def tstr(x):
        e_ = x.encode("utf-8")
        return struct.pack("<I", len(e_)) + e_

    def obj(path):
        return tstr(path) + struct.pack("<IIIQ", 20, 3, 1, n) + struct.pack("<I", 0)
    meta = struct.pack("<I", 2) + obj("/'g'/'a'") + obj("/'g'/'b'")
    raw = np.empty((N, 2), dtype="<i4")
    raw[:, 0], raw[:, 1] = a, b
    rawb = raw.tobytes()
    toc = (1 << 1) | (1 << 2) | (1 << 3) | (1 << 5)
    data = b"TDSm" + struct.pack("<iiQQ", toc, 4713, len(meta) + len(rawb), len(meta)) + meta + rawb
    fails = []

    def bad(what, got, want):
        diff = np.nonzero(np.asarray(got) != want)[0] if len(got) == len(want) else []
        fails.append(({"kind": "view-mismatch", "mode": what, "fields": ["data"], "types": ["Int32"],
                       "interleaved": True, "nsegs": 1, "big": True},
                      {"what": what, "rows_per_chunk": n, "chunks": k, "returned": len(got), "expected": len(want),
                       "first_wrong_index": int(diff[0]) if len(diff) else None}))
    try:
        f = TdmsFile.read(io.BytesIO(data))
        for nm, want in (("a", a), ("b", b)):
            got = f["g"][nm][:]
            if len(got) != N or not np.array_equal(got, want):
                bad("eager:" + nm, got, want)
        with TdmsFile.open(io.BytesIO(data)) as fo:
            got = fo["g"]["b"][:]
            if len(got) != N or not np.array_equal(got, b):
                bad("lazy:b", got, b)
            got = np.concatenate([c[:] for c in fo["g"]["a"].data_chunks()])
            if len(got) != N or not np.array_equal(got, a):
                bad("channel-chunks:a", got, a)
            got = np.concatenate([dc["g"]["b"][:] for dc in fo.data_chunks()])
            if len(got) != N or not np.array_equal(got, b):
                bad("file-chunks:b", got, b)
            w = fo["g"]["a"].read_data(N - n - 5, 20)
            if not np.array_equal(w, a[N - n - 5:N - n + 15]):
                bad("window:a", w, a[N - n - 5:N - n + 15])
    except Exception as ex:  # noqa
        import traceback
        fails.append(({"kind": "view-mismatch", "mode": "big-interleaved", "fields": ["exception"], "types": ["Int32"],
                       "interleaved": True, "nsegs": 1, "big": True, "exception": type(ex).__name__},
                      {"traceback": traceback.format_exc()[-1500:]}))
    return fails
