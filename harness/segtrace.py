"""TRACE for C01/C02: real files -> encoded-form trace (independent structural parser) + observation of the reader."""
import glob
import io
import os
import zlib

from . import enc, parser, proj
from .common import REPO

SIZES = {k: v[1] for k, v in enc.TYPES.items()}


def trace_of_file(tid, name, data):
    """-> trace dict for Trace_Segments.tla, or (None, reason) when the file is outside what the trace model covers"""
    try:
        evs = parser.parse(data)
    except Exception as ex:  # noqa
        return None, "parser: %s" % ex
    if not evs:
        return None, "empty"
    segs = []
    paths, chans, groups, parents = [], [], [], []
    for ev in evs:
        if "error" in ev:
            return None, "parser: " + ev["error"]
        toc = ev["toc"]
        if toc & (1 << 7):
            return None, "DAQmx"
        if ev["pos"] + 28 + ev["next_off"] > len(data) or ev["next_off"] >= (1 << 62):
            return None, "truncated or length-unknown final segment"
        listed = []
        be = ev["be"]
        for ob in ev["objs"]:
            p = ob["path"]
            comps = parser.components(p)
            if p not in paths:
                paths.append(p)
                if len(comps) == 2:
                    chans.append(p)
                    parents.append([p, ob["parent"]])
                elif len(comps) == 1:
                    groups.append(p)
            ty = ob.get("type", "none") if ob["kind"] == "full" else "none"
            n = ob.get("n", 0) if ob["kind"] == "full" else 0
            if ob["kind"] == "full":
                if ty not in SIZES:
                    return None, "type %s" % ty
                size = ob["total"] if ty == "String" else n * SIZES[ty]
                if ob.get("dim") != 1:
                    return None, "dimension"
            else:
                size = 0
            props = []
            for pr in ob["props"]:
                raw = bytes.fromhex(pr["hex"])
                if pr["type"] == "String":
                    tok = "s:" + raw.decode("utf-8", errors="replace")
                else:
                    if pr["type"] not in enc.TYPES or enc.TYPES[pr["type"]][2] == "complex":
                        return None, "property type %s" % pr["type"]
                    le = _to_le(pr["type"], raw, be)
                    tok = proj.expected_prop_canon(pr["type"], le)
                props.append([pr["name"], tok])
            listed.append({"p": p, "kind": ob["kind"], "n": min(n, 10 ** 8), "ty": ty, "size": min(size, 10 ** 9),
                           "props": props})
        if min(ev["raw_len"], 10 ** 9) != ev["raw_len"]:
            return None, "too large for TLC integers"
        segs.append({"meta": bool(toc & 2), "newList": bool(toc & 4), "il": bool(toc & (1 << 5)), "be": be,
                     "bytes": max(ev["raw_len"], 0), "listed": listed})
    for p in list(chans):
        pass
    # groups that are only implied by channels are not declared: they are not in `groups`
    return {"id": tid, "name": name, "paths": paths + [q[1] for q in parents if q[1] not in paths and False],
            "chans": chans, "groups": groups, "parents": parents, "file": segs}, None


def _to_le(ty, raw, be):
    if not be:
        return raw
    kind = enc.TYPES[ty][2]
    if kind == "time":
        return raw[8:][::-1] + raw[:8][::-1]
    return raw[::-1]


IMPL = []


def observe(data):
    from nptdms import TdmsFile
    del IMPL[:]
    try:
        from nptdms import _verif
        _verif.set_sink(lambda rec: IMPL.append(rec) if rec.get("event") == "segment" else None)
    except ImportError:
        _verif = None
    try:
        f = TdmsFile.read(io.BytesIO(data), raw_timestamps=True)
    except Exception as ex:  # noqa
        return {"error": True, "partial": False, "exception": "%s: %s" % (type(ex).__name__, ex), "groups": [], "gchans": [], "len": [],
                "ty": [], "props": []}
    finally:
        if _verif is not None:
            _verif.set_sink(None)
    v = proj.project_file(f, data=False)
    partial = any(r.get("final_chunk_lengths") is not None for r in IMPL) if IMPL else \
        (f.file_status.channel_statuses is not None and any(
            st.read_length != st.expected_length for st in f.file_status.channel_statuses.values()))
    return {"error": False, "partial": bool(partial), "groups": v["groups"], "gchans": [[g, v["gchans"][g]] for g in v["groups"]],
            "len": [[c, min(d["len"], 10 ** 9)] for c, d in v["chans"].items()],
            "ty": [[c, d["ty"] or "none"] for c, d in v["chans"].items()],
            "props": [[p, [[k, val] for k, val in m.items()]] for p, m in v["props"].items()]}


def collect_repo_files():
    """(name, bytes) of the repository's scenario files and bundled data files"""
    out = []
    import importlib
    try:
        sc = importlib.import_module("nptdms.test.scenarios")
        for fn in sc._scenarios:
            ps = fn()
            tf = ps.values[0]
            out.append(("scenario:" + str(ps.id), tf.get_bytes_io_file().read()))
    except Exception as ex:  # noqa
        out.append(("scenarios-unavailable:%s" % ex, b""))
    for p in sorted(glob.glob(os.path.join(REPO, "nptdms", "test", "data", "*.tdms"))):
        with open(p, "rb") as fh:
            out.append(("data:" + os.path.basename(p), fh.read()))
    return out


def run_trace(chk, label):
    """validate the repository's scenario and data files against Trace_Segments.tla; fold into the Check"""
    import logging
    from . import trace
    logging.disable(logging.WARNING)
    traces, skipped = [], {}
    for i, (name, data) in enumerate(collect_repo_files()):
        if not data:
            skipped[name] = "no data"
            continue
        t, why = trace_of_file(i + 1, name, data)
        if t is None:
            skipped[name] = why
            continue
        t["obs"] = observe(data)
        t["impl"] = [{"num_chunks": min(r["num_chunks"], 10 ** 9),
                      "objects": [[o[0], bool(o[1]), min(o[2], 10 ** 9)] for o in r["objects"]]} for r in IMPL]
        traces.append(t)
    if not traces:
        chk.observe("segment_traces_unavailable")
        return
    slim = [{k: t[k] for k in ("id", "paths", "chans", "groups", "parents", "file", "obs", "impl")} for t in traces]
    refined = set()
    accepted, where, tres = trace.validate("Trace_Segments", "Trace_Segments.cfg", slim, label, workers=8,
                                           extra_marks={"REFINED": refined})
    chk.cov["refinement"] = {"what": "per-segment object list and chunk count logged by the NPTDMS_VERIF hooks vs the "
                                     "reader model's step (diagnostic only)",
                             "traces_with_hook_records": sum(1 for t in traces if t["impl"]),
                             "traces_refined_stepwise": len(refined)}
    chk.cov["tlc_runs"].append({"config": "Trace_Segments (repository scenario + data files)", "traces": len(traces),
                                "accepted": len(accepted), "skipped": skipped, "distinct_states": tres.distinct})
    chk.cov["states"] += tres.distinct
    chk.cov["transitions"] += tres.generated
    chk.validated(len(accepted))
    chk.count(len(traces), [zlib.crc32(t["name"].encode()) for t in traces])
    for t in traces:
        if str(t["id"]) not in accepted:
            chk.violation({"kind": "segment-trace", "file": t["name"]},
                          {"file": t["name"], "segments": t["file"], "observed": t["obs"],
                           "consumed_segments": where.get(str(t["id"]))})
