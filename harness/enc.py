"""Independent TDMS byte encoder (trusted base, DESIGN.md section 9).

Turns an *abstract file description* (as printed by the TLA+ specifications) into bytes.
Deliberately dumb: it never decides what a file means, it only lays out what it is told.
Standard library only; never imports nptdms.

Abstract file = {"segs": [seg, ...]} with

seg = {
  "meta": bool, "newlist": bool, "be": bool, "il": bool,      # ToC flags
  "listed": [ {"p": path, "kind": "full"|"same"|"nodata", "props": [[name, ptype, value], ...],
               optional overrides "ty", "n"} ],                # what the metadata block says
  "objs":   [ {"p": path, "has": bool, "n": int, "ty": type name or None,
               optional "daqmx": {...}} ],                      # effective explicit list -> raw data layout
  "k": number of chunks,
  optional: "version", "marker" (next-segment offset 0xFFFF...), "rawflag", "drop" (bytes cut from raw data end),
            "metapad" (padding bytes after the metadata, counted in the raw data offset)
}

A value of a channel is its little-endian byte string (strings: python str); the k-th value of channel p
is values.value(ty, p, k, seed).
"""
import struct
import zlib
import random

# name -> (type code, size or None, kind)
TYPES = {
    "Int8": (1, 1, "int"), "Int16": (2, 2, "int"), "Int32": (3, 4, "int"), "Int64": (4, 8, "int"),
    "Uint8": (5, 1, "uint"), "Uint16": (6, 2, "uint"), "Uint32": (7, 4, "uint"), "Uint64": (8, 8, "uint"),
    "SingleFloat": (9, 4, "float"), "DoubleFloat": (10, 8, "float"),
    "SingleFloatWithUnit": (0x19, 4, "float"), "DoubleFloatWithUnit": (0x1A, 8, "float"),
    "String": (0x20, None, "string"), "Boolean": (0x21, 1, "bool"), "TimeStamp": (0x44, 16, "time"),
    "ComplexSingleFloat": (0x08000c, 8, "complex"), "ComplexDoubleFloat": (0x10000d, 16, "complex"),
}
# numpy dtype strings (little-endian) of what a read is expected to return; used by the projection only
NPTYPE = {
    "Int8": "i1", "Int16": "<i2", "Int32": "<i4", "Int64": "<i8",
    "Uint8": "u1", "Uint16": "<u2", "Uint32": "<u4", "Uint64": "<u8",
    "SingleFloat": "<f4", "DoubleFloat": "<f8", "SingleFloatWithUnit": "<f4", "DoubleFloatWithUnit": "<f8",
    "Boolean": "?", "ComplexSingleFloat": "<c8", "ComplexDoubleFloat": "<c16",
}
STRUCT = {"Int8": "b", "Int16": "h", "Int32": "i", "Int64": "q", "Uint8": "B", "Uint16": "H",
          "Uint32": "I", "Uint64": "Q", "SingleFloat": "f", "DoubleFloat": "d",
          "SingleFloatWithUnit": "f", "DoubleFloatWithUnit": "d", "Boolean": "b"}
DAQMX_CODES = {"Uint8": 0, "Int8": 1, "Uint16": 2, "Int16": 3, "Uint32": 4, "Int32": 5,
               "Uint64": 6, "Int64": 7, "SingleFloat": 8, "DoubleFloat": 9}

TOC_META, TOC_NEWLIST, TOC_RAW, TOC_IL, TOC_BE, TOC_DAQMX = 1 << 1, 1 << 2, 1 << 3, 1 << 5, 1 << 6, 1 << 7
MARKER = 0xFFFFFFFFFFFFFFFF


def size_of(ty):
    return TYPES[ty][1]


def to_disk(ty, le, be):
    """little-endian element bytes -> bytes as stored in a segment of the given byte order"""
    if not be:
        return le
    kind = TYPES[ty][2]
    if kind == "complex":
        h = len(le) // 2
        return le[:h][::-1] + le[h:][::-1]
    if kind == "time":
        # LE: uint64 fractions, int64 seconds ; BE: int64 seconds, uint64 fractions
        return le[8:][::-1] + le[:8][::-1]
    return le[::-1]


def _rng(*key):
    return random.Random(zlib.crc32("/".join(str(k) for k in key).encode("utf-8")))


_F32_SPECIAL = [0x00000000, 0x80000000, 0x7F800000, 0xFF800000, 0x7FC00001, 0xFFC12345, 0x7F800001,
                0x00000001, 0x7F7FFFFF, 0x3F800000]
_F64_SPECIAL = [0, 1 << 63, 0x7FF0000000000000, 0xFFF0000000000000, 0x7FF8000000000001, 0xFFF8123456789ABC,
                0x7FF0000000000001, 1, 0x7FEFFFFFFFFFFFFF, 0x3FF0000000000000]
_STR_ALPHA = ["a", "Z", "0", " ", "'", "/", "é", "ß", "中", "\U0001F600", "́", "\\", "\"", "\x00", "\ufeff", "\n"]


def value(ty, p, k, seed=0, width=None, extra=0):
    """Concrete k-th value of channel p of type ty: little-endian bytes (str for String).
    The first values walk the type's extremes, the rest are pseudo-random."""
    kind = TYPES[ty][2]
    sz = TYPES[ty][1]
    r = _rng(seed, ty, p, k)
    if kind in ("int", "uint"):
        bits = 8 * sz
        if kind == "int":
            # byte-swap-symmetric values (0, -1) come late so that short channels still expose byte-order slips
            ext = [-(1 << (bits - 1)), (1 << (bits - 1)) - 1, 1, -2, 258 % (1 << (bits - 1)), 0, -1]
            v = ext[k] if k < len(ext) else r.randrange(-(1 << (bits - 1)), 1 << (bits - 1))
        else:
            ext = [1 << (bits - 1), 1, (1 << bits) - 2, 258 % (1 << bits), (1 << bits) - 1, 0]
            v = ext[k] if k < len(ext) else r.randrange(0, 1 << bits)
        return v.to_bytes(sz, "little", signed=(kind == "int"))
    if kind == "bool":
        return bytes([[1, 0, 1, 1, 0][k] if k < 5 else r.randrange(2)])
    if kind == "float":
        spec = _F32_SPECIAL if sz == 4 else _F64_SPECIAL
        v = spec[k] if k < len(spec) else r.getrandbits(8 * sz)
        return v.to_bytes(sz, "little")
    if kind == "complex":
        h = sz // 2
        spec = _F32_SPECIAL if h == 4 else _F64_SPECIAL
        a = spec[k % len(spec)] if k < 2 * len(spec) else r.getrandbits(8 * h)
        b = spec[(k * 3 + 1) % len(spec)] if k < len(spec) else r.getrandbits(8 * h)
        return a.to_bytes(h, "little") + b.to_bytes(h, "little")
    if kind == "time":
        secs = [0, -1, 3600 * 24 * 365 * 100, -(1 << 33), (1 << 33)]
        fracs = [0, (1 << 64) - 1, 1 << 63, 1, (1 << 63) - 1]
        s = secs[k] if k < len(secs) else r.randrange(-(1 << 34), 1 << 34)
        f = fracs[k] if k < len(fracs) else r.getrandbits(64)
        return struct.pack("<Qq", f, s)
    if kind == "string":
        # The byte length is a function of (p, position in chunk) only, so that every chunk of a segment has the
        # same total size (the raw data index declares it once); width = position of the value inside its chunk.
        w = 0 if width is None else width
        rw = _rng(seed, "w", p, w)
        if rw.random() < 0.15 and not extra:
            return ""
        target = rw.randrange(0, 9) + extra       # extra: size variant (same count, different byte size)
        if rw.random() < 0.03:
            target += 300                          # now and then a text longer than 255 bytes
        body = ""
        while len(body.encode("utf-8")) < target:
            c = r.choice(_STR_ALPHA)
            if len((body + c).encode("utf-8")) > target:
                c = "x"
            body += c
        if body and r.random() < 0.2 and len(body[-1].encode("utf-8")) == 1:
            body = body[:-1] + "\x00"          # a value that ends in a NUL character (fixed-width text fields)
        tag = "%04d" % (k % 10000)
        # the counter that keeps values distinct usually leads; now and then it trails, so that any character of the
        # alphabet (a zero-width no-break space U+FEFF, a quote, a newline) may be the first one of a value
        return body + tag if r.random() < 0.25 else tag + body
    raise ValueError(ty)


def prop_value(pty, token, seed=0):
    """Concrete value of a property value token for a property of type pty: (le bytes | str)."""
    return value(pty, "prop", _tok_index(token), seed, width=_tok_index(token))


def _tok_index(token):
    if isinstance(token, int):
        return token
    return zlib.crc32(str(token).encode()) % 1000


def _u32(v, be):
    return struct.pack(">I" if be else "<I", v)


def _u64(v, be):
    return struct.pack(">Q" if be else "<Q", v)


def _string(s, be):
    b = s.encode("utf-8")
    return _u32(len(b), be) + b


def encode_prop(name, pty, val, be):
    out = _string(name, be) + _u32(TYPES[pty][0], be)
    if pty == "String":
        out += _string(val, be)
    else:
        out += to_disk(pty, val, be)
    return out


def daqmx_index(d, n, be, ty_code=0xFFFFFFFF):
    """d = {"kind": "fc"|"dl", "scalers": [{"id","ty","buf","off"}], "widths": [..]}"""
    hdr = 0x1269 if d["kind"] == "fc" else 0x126A
    out = _u32(hdr, be) + _u32(ty_code, be) + _u32(1, be) + _u64(n, be) + _u32(len(d["scalers"]), be)
    for s in d["scalers"]:
        if d["kind"] == "fc":
            out += b"".join(_u32(x, be) for x in (DAQMX_CODES[s["ty"]], s["buf"], s["off"], 0, s["id"]))
        else:
            out += _u32(DAQMX_CODES[s["ty"]], be) + _u32(s["buf"], be) + _u32(s["off"], be) + bytes([0]) \
                + _u32(s["id"], be)
    out += _u32(len(d["widths"]), be) + b"".join(_u32(w, be) for w in d["widths"])
    return out


class Encoded(object):
    def __init__(self):
        self.data = b""
        self.index = b""          # what a faithful .tdms_index file holds
        self.values = {}          # path -> list of values in file order (le bytes / str)
        self.segs = []            # layout facts per segment
        self.scaler_values = {}   # path -> {scaler id -> list of le bytes}


def encode(fd, seed=0, typemap=None):
    """Encode an abstract file. Returns Encoded."""
    enc = Encoded()
    counters = {}
    out = bytearray()
    idx = bytearray()
    for si, seg in enumerate(fd["segs"]):
        be = bool(seg.get("be"))
        il = bool(seg.get("il"))
        objs = seg["objs"]
        k = seg.get("k", 0)
        daqmx = any(o.get("daqmx") for o in objs if o["has"])
        dataobjs = [o for o in objs if o["has"]]

        def tyof(o):
            t = o["ty"]
            return typemap.get(t, t) if typemap else t

        # ---- raw data
        raw = bytearray()
        chunk_bytes = None
        chunk_layout = []   # per chunk: list of (path, offset in chunk, nbytes, nvalues)
        if daqmx:
            raw, chunk_bytes = _daqmx_raw(enc, seg, dataobjs, k, be, seed, si)
        else:
            for c in range(k):
                chunk = bytearray()
                lay = []
                if il and not (len(dataobjs) == 1 and tyof(dataobjs[0]) == "String"):
                    n = dataobjs[0]["n"] if dataobjs else 0
                    cols = []
                    for o in dataobjs:
                        vals = []
                        for i in range(o["n"]):
                            kk = counters.get(o["p"], 0)
                            v = value(tyof(o), o["p"], kk, seed)
                            counters[o["p"]] = kk + 1
                            enc.values.setdefault(o["p"], []).append(v)
                            vals.append(to_disk(tyof(o), v, be))
                        cols.append(vals)
                    for i in range(n):
                        for col in cols:
                            chunk += col[i]
                else:
                    for o in dataobjs:
                        start = len(chunk)
                        t = tyof(o)
                        if t == "String":
                            strs = []
                            for i in range(o["n"]):
                                kk = counters.get(o["p"], 0)
                                v = ("%03d" % (kk % 1000)) if fd.get("strfix") else value(t, o["p"], kk, seed, width=i, extra=o.get("sv", 0))
                                counters[o["p"]] = kk + 1
                                enc.values.setdefault(o["p"], []).append(v)
                                strs.append(v.encode("utf-8"))
                            off = 0
                            for s in strs:
                                off += len(s)
                                chunk += _u32(off, be)
                            for s in strs:
                                chunk += s
                        else:
                            for i in range(o["n"]):
                                kk = counters.get(o["p"], 0)
                                v = value(t, o["p"], kk, seed)
                                counters[o["p"]] = kk + 1
                                enc.values.setdefault(o["p"], []).append(v)
                                chunk += to_disk(t, v, be)
                        lay.append((o["p"], start, len(chunk) - start, o["n"]))
                if chunk_bytes is None:
                    chunk_bytes = len(chunk)
                elif chunk_bytes != len(chunk):
                    raise AssertionError("encoder: chunks of one segment differ in size (%d vs %d)"
                                         % (chunk_bytes, len(chunk)))
                chunk_layout.append(lay)
                raw += chunk
        for o in objs:
            enc.values.setdefault(o["p"], enc.values.get(o["p"], []))
        if chunk_bytes is None:
            chunk_bytes = 0
        # string total size per object (first chunk)
        str_total = {}
        if chunk_layout:
            for (p, start, nb, nv) in chunk_layout[0]:
                str_total[p] = nb
        # ---- metadata
        meta = bytearray()
        if seg.get("meta", True):
            listed = seg["listed"]
            meta += _u32(len(listed), be)
            byp = {o["p"]: o for o in objs}
            for e in listed:
                meta += _string(e["p"], be)
                kind = e["kind"]
                o = byp.get(e["p"])
                if kind == "nodata":
                    meta += _u32(0xFFFFFFFF, be)
                elif kind == "same":
                    meta += _u32(0, be)
                elif o is not None and o.get("daqmx") and kind == "full":
                    meta += daqmx_index(o["daqmx"], e.get("n", o["n"]), be)
                else:
                    t = e.get("ty") or (tyof(o) if o else None)
                    n = e.get("n", o["n"] if o else 0)
                    if t == "String":
                        total = e.get("total", str_total.get(e["p"], _empty_string_total(n)))
                        meta += _u32(28, be) + _u32(TYPES[t][0], be) + _u32(e.get("dim", 1), be) + _u64(n, be) \
                            + _u64(total, be)
                    else:
                        code = e["code"] if "code" in e else TYPES[t][0]
                        meta += _u32(20, be) + _u32(code, be) + _u32(e.get("dim", 1), be) + _u64(n, be)
                props = e.get("props") or []
                meta += _u32(len(props), be)
                for (name, pty, val) in props:
                    meta += encode_prop(name, pty, val, be)
        # "metapad": bytes between the end of the metadata and the raw data offset (LabVIEW pads metadata; what lies
        # there is unspecified, so it is filled with non-zero bytes).  The index file repeats it.
        if seg.get("meta", True) and seg.get("metapad"):
            meta += bytes((0xA5 + 17 * j) % 251 + 1 for j in range(seg["metapad"]))
        drop = seg.get("drop", 0)
        if drop:
            raw = raw[:len(raw) - drop]
        # ---- lead in
        toc = 0
        if seg.get("meta", True):
            toc |= TOC_META
        if seg.get("newlist"):
            toc |= TOC_NEWLIST
        if seg.get("rawflag", len(raw) > 0 or k > 0):
            toc |= TOC_RAW
        if il:
            toc |= TOC_IL
        if be:
            toc |= TOC_BE
        if daqmx:
            toc |= TOC_DAQMX
        nxt = MARKER if seg.get("marker") else len(meta) + len(raw) + drop * (1 if seg.get("declare_full") else 0)
        lead = struct.pack("<i", toc) + struct.pack((">" if be else "<") + "iQQ", seg.get("version", 4713),
                                                     nxt, len(meta))
        pos = len(out)
        out += seg.get("tag", b"TDSm") + lead + meta + raw
        idx += b"TDSh" + lead + meta
        enc.segs.append({"pos": pos, "dataPos": pos + 28 + len(meta), "nextPos": len(out),
                         "metaLen": len(meta), "chunkBytes": chunk_bytes, "k": k, "rawLen": len(raw),
                         "layout": chunk_layout})
    enc.data = bytes(out)
    enc.index = bytes(idx)
    return enc


def _empty_string_total(n):
    return 4 * n


def _daqmx_raw(enc, seg, dataobjs, k, be, seed, si):
    """DAQmx raw data: buffer after buffer, each rows x width bytes of pseudo-random bytes; records, per channel
    and scaler, the values found at the declared positions (little-endian element bytes)."""
    widths = None
    for o in dataobjs:
        widths = o["daqmx"]["widths"]
    rows = [0] * len(widths)
    for o in dataobjs:
        for s in o["daqmx"]["scalers"]:
            rows[s["buf"]] = max(rows[s["buf"]], o["n"])
    raw = bytearray()
    for c in range(k):
        for b, w in enumerate(widths):
            r = _rng(seed, "daqmx", si, c, b)
            buf = bytearray(r.getrandbits(8) for _ in range(rows[b] * w))
            forced = seg.get("daqmx_values") or {}
            for o in dataobjs:            # optionally place given little-endian element bytes at the scaler positions
                for s in o["daqmx"]["scalers"]:
                    vals = (forced.get(o["p"]) or {}).get(s["id"])
                    if s["buf"] != b or vals is None:
                        continue
                    sz = TYPES[s["ty"]][1]
                    for rr in range(o["n"]):
                        le = vals[c * o["n"] + rr]
                        buf[rr * w + s["off"]: rr * w + s["off"] + sz] = le[::-1] if be else le
            buf = bytes(buf)
            raw += buf
            for o in dataobjs:
                for s in o["daqmx"]["scalers"]:
                    if s["buf"] != b:
                        continue
                    sz = TYPES[s["ty"]][1]
                    dl = o["daqmx"]["kind"] == "dl"
                    off = s["off"] // 8 if dl else s["off"]
                    lst = enc.scaler_values.setdefault(o["p"], {}).setdefault(s["id"], [])
                    for rr in range(o["n"]):
                        disk = buf[rr * w + off: rr * w + off + sz]
                        le = disk[::-1] if be else disk
                        if dl:
                            iv = int.from_bytes(le, "little")
                            iv = (iv >> (s["off"] % 8)) & 1
                            le = iv.to_bytes(sz, "little")
                        lst.append(bytes(le))
    chunk = sum(r * w for r, w in zip(rows, widths))
    for o in dataobjs:
        enc.values.setdefault(o["p"], [])
    return raw, chunk
