"""C03: every way of obtaining a channel's data gives the same data (replay of TdmsOpenFile.GenAccess cases)."""
import io
import os
import shutil
import tempfile
import zlib

import numpy as np

from . import enc, proj
from .openfile import build_file2, X, Y
from .common import ROOT

SCRATCH = os.path.join(ROOT, ".work")


def _get(path, ch, f, stream_exp, nm):
    """-> (elems, extra problems list)"""
    probs = []
    if path == "slice_all":
        return proj.elems(ch[:]), probs
    if path == "ellipsis":
        return proj.elems(ch[...]), probs
    if path == "read_data":
        return proj.elems(ch.read_data()), probs
    if path == "data":
        return proj.elems(ch.data), probs
    if path == "iterate":
        return [proj._scalar(v) for v in ch], probs
    if path == "int_index":
        return [proj.indexed_scalar(ch[i]) for i in range(len(ch))], probs
    if path == "read_data_unscaled":
        r = ch.read_data(scaled=False)
        if isinstance(r, dict):          # DAQmx: dictionary of scaler id -> raw scaler data
            r = r[0] if 0 in r else (np.array([], dtype=ch.dtype) if not r else r[sorted(r)[0]])
        return proj.elems(r), probs
    if path == "raw_data":
        return proj.elems(ch.raw_data), probs
    if path == "chan_chunks":
        out = []
        run = 0
        k = 0
        for chunk in ch.data_chunks():
            if chunk.offset != run:
                probs.append("chunk offset %d != running count %d" % (chunk.offset, run))
            d = chunk[:]
            if len(d) != len(chunk):
                probs.append("len(chunk) %d != len(chunk[:]) %d" % (len(chunk), len(d)))
            if len(chunk) > 0:
                k += 1
            out.extend(proj.elems(d))
            run += len(chunk)
        return out, probs
    if path == "file_chunks":
        out = []
        run = 0
        k = 0
        for dc in f.data_chunks():
            chunk = dc["grp"][nm]
            if len(chunk) > 0 and chunk.offset != run:
                probs.append("file chunk offset %d != running count %d" % (chunk.offset, run))
            out.extend(proj.elems(chunk[:]))
            run += len(chunk)
        return out, probs
    if path == "file_chunks_listed":
        out = []
        run = 0
        for dc in list(f.data_chunks()):          # every chunk is inspected only after the generator is exhausted
            chunk = dc["grp"][nm]
            if len(chunk) > 0 and chunk.offset != run:
                probs.append("file chunk offset %d != running count %d (inspected after the generator advanced)"
                             % (chunk.offset, run))
            out.extend(proj.elems(chunk[:]))
            run += len(chunk)
        return out, probs
    raise AssertionError(path)


def replay_access_case(case):
    from nptdms import TdmsFile
    rec = case["rec"]
    seed = case["seed"]
    shape = rec["shape"]
    fd, info = build_file2(shape, seed, case.get("variant", 0))
    e = enc.encode(fd, seed)
    from .openfile import channel_values
    vals = {"x": channel_values(e, X)[:rec["lenx"]], "y": channel_values(e, Y)[:rec["leny"]]}
    tys = {"x": info["xtype"], "y": info["ytype"]}
    streams = {"x": rec["chanx"], "y": rec["chany"]}
    fails = []
    n = 0
    h = zlib.crc32(repr(shape).encode()) + seed
    configs = rec["configs"]
    if not case.get("all_configs"):
        configs = [c for i, c in enumerate(configs) if (i + h) % 5 == 0] or configs[:1]
    tmp = tempfile.mkdtemp(prefix="c03-", dir=SCRATCH)
    try:
        fpath = os.path.join(tmp, "f.tdms")
        with open(fpath, "wb") as fh:
            fh.write(e.data)
        for cfg in configs:
            mm = tmp if cfg["memmap"] else None
            for mode in ("eager", "lazy"):
                import pathlib
                opened = None
                if cfg["source"] == "path":
                    src = fpath
                elif cfg["source"] == "pathlib":
                    src = pathlib.Path(fpath)
                elif cfg["source"] == "gzip":
                    import gzip
                    gz = fpath + ".gz"
                    if not os.path.exists(gz):
                        with gzip.open(gz, "wb") as gh:
                            gh.write(e.data + b"")
                    src = opened = gzip.open(gz, "rb")         # has a fileno(), of the (smaller) compressed file
                elif cfg["source"] == "fileobj":
                    src = opened = open(fpath, "rb")          # a real file object supplied by the caller
                else:
                    src = io.BytesIO(e.data)
                try:
                    f = (TdmsFile.read if mode == "eager" else TdmsFile.open)(src, raw_timestamps=cfg["rawts"],
                                                                              memmap_dir=mm)
                except Exception as ex:  # noqa
                    fails.append(({"kind": "open-failed", "mode": mode}, {"shape": shape, "cfg": cfg,
                                                                          "exception": repr(ex), "hex": e.data.hex()}))
                    continue
                for nm in ("x", "y"):
                    if "grp" not in f or nm not in f["grp"]:
                        continue
                    ch = f["grp"][nm]
                    ty = tys[nm]
                    from .openfile import expected_channel_elems
                    expected = expected_channel_elems(info, nm, ty, vals[nm])
                    reference = None
                    for pth in sorted(rec["paths"], key=lambda p: p["path"]):
                        if mode not in pth["modes"]:
                            continue
                        n += 1
                        try:
                            got, probs = _get(pth["path"], ch, f, streams[nm], nm)
                        except Exception as ex:  # noqa
                            got, probs = None, ["%s: %s" % (type(ex).__name__, ex)]
                        if ty == "TimeStamp" and not cfg["rawts"]:
                            # documented change of representation: datetime64[us]; all paths must agree with each
                            # other (C12 judges the conversion itself)
                            if reference is None and got is not None:
                                reference = got
                                if len(got) != len(expected):
                                    probs.append("length %d != %d" % (len(got), len(expected)))
                            elif got != reference:
                                probs.append("differs from the first access path")
                        elif got != (expected if pth.get("scaled", True) else proj.expected_elems(ty, vals[nm])):
                            probs.append("data differs from the file's content")
                        if probs:
                            fails.append(({"kind": "access-path", "path": pth["path"], "mode": mode,
                                           "memmap": cfg["memmap"], "rawts": cfg["rawts"],
                                           "untyped": all((g["nx"] if nm == "x" else g["ny"]) == 0 for g in shape["segs"]), "type_kind": enc.TYPES[ty][2]},
                                          {"shape": shape, "info": info, "cfg": cfg, "channel": nm, "problems": probs,
                                           "expected": expected[:10], "observed": (got or [])[:10], "seed": seed,
                                           "variant": case.get("variant", 0), "hex": e.data.hex()}))
                if mode == "lazy":
                    f.close()
                del f
                if opened is not None:
                    if opened.closed:
                        fails.append(({"kind": "caller-file-closed", "mode": mode}, {"shape": shape, "cfg": cfg}))
                    opened.close()
    finally:
        shutil.rmtree(tmp, ignore_errors=True)
    key = zlib.crc32(repr(shape).encode())
    return {"n": n, "keys": [key] if rec["lenx"] + rec["leny"] > 0 else [], "fails": fails, "validated": 1}
