"""TdmsSystem replay: write sessions -> crash -> defragment -> further sessions -> readers (eager / lazy, with /
without the index file) on a scratch directory."""
import io
import os
import shutil
import tempfile
import zlib

import numpy as np

from . import parser, proj
from .common import ROOT

SCRATCH = os.path.join(ROOT, ".work")
NONE = -1000
NP_BY_W = {2: ["<i2", "<u2"], 4: ["<i4", "<f4", "<u4"], 8: ["<f8", "<i8", "<c8"], 1: ["i1", "u1"]}


def _concrete(c, w, start, n, h):
    if w == 0:
        return ["%03d" % ((start + i) % 1000) for i in range(n)]
    cl = NP_BY_W[w]
    dt = np.dtype(cl[(h + ord(c[0])) % len(cl)])
    base = np.arange(start + 1, start + n + 1)
    if dt.kind == "c":
        return (base + 1j * (base + 100)).astype(dt)
    if dt.kind == "f":
        return (base * 1.5 + 0.25).astype(dt)
    return (base * 7 + 3).astype(dt)


def replay_system_case(case):
    from nptdms import TdmsFile, TdmsWriter, ChannelObject
    rec = case["rec"]
    seed = case["seed"]
    hist = rec["hist"]
    h = zlib.crc32(repr(hist).encode()) + seed
    fails = []
    n = 0
    tmp = tempfile.mkdtemp(prefix="sys-", dir=SCRATCH)
    path = os.path.join(tmp, "f.tdms")
    idxp = path + "_index"
    hidden = idxp + ".hidden"
    written = {"x": [], "y": []}      # canonical elems of everything written per channel
    counts = {"x": 0, "y": 0}
    writer = None
    f = None
    chans = {}
    copy_segments = 0      # segments of the file that stem from the last defragment (crash positions count after them)

    def fail(i, kind, **kw):
        fails.append(({"kind": "system", "what": kind, "op": hist[i]["op"]},
                      dict(kw, step=i + 1, hist=hist[:i + 1], seed=seed)))

    try:
        for i, o in enumerate(hist):
            op = o["op"]
            n += 1
            try:
                if op == "open_writer":
                    if os.path.exists(hidden):
                        os.rename(hidden, idxp)
                    writer = TdmsWriter(path, mode=o["mode"], index_file=True)
                    writer.open()
                elif op == "write":
                    objs = []
                    for ob in o["objs"]:
                        arr = _concrete(ob["c"], ob["w"], counts[ob["c"]], ob["n"], h)
                        counts[ob["c"]] += ob["n"]
                        written[ob["c"]].extend(proj.elems(arr) if ob["w"] else ["s:" + s for s in arr])
                        objs.append(ChannelObject("grp", ob["c"], arr))
                    writer.write_segment(objs)
                elif op == "close_writer":
                    writer.close()
                    writer = None
                elif op == "crash":
                    data = open(path, "rb").read()
                    evs = parser.parse(data)
                    ev = evs[copy_segments + o["cut"]["j"] - 1]
                    kind = o["cut"]["kind"]
                    if kind == "leadin":
                        at = ev["pos"] + 4 + (h % 24)
                    elif kind == "meta":
                        at = ev["pos"] + 28 + max(1, ev["meta_parsed"] // 2)
                    else:
                        at = ev["raw_start"] + o["cut"]["b"]
                    with open(path, "r+b") as fh:
                        fh.truncate(at)
                elif op == "defragment":
                    if os.path.exists(hidden):
                        os.remove(hidden)
                    if os.path.exists(idxp):
                        os.remove(idxp)          # the copy is made from the data file alone
                    dst = os.path.join(tmp, "copy.tdms")
                    TdmsWriter.defragment(path, dst, index_file=True)
                    os.replace(dst, path)
                    os.replace(dst + "_index", idxp)
                    copy_segments = len(parser.parse(open(path, "rb").read()))
                    for nm in ("x", "y"):
                        # what survives is a prefix of what was written; later sessions append to it
                        written[nm] = written[nm][:o["len"][nm]] if o["exists"][nm] else []
                elif op == "open_reader":
                    if o["idx"] and os.path.exists(hidden):
                        os.rename(hidden, idxp)
                    if not o["idx"] and os.path.exists(idxp):
                        os.rename(idxp, hidden)
                    f = TdmsFile.read(path) if o["mode"] == "eager" else TdmsFile.open(path)
                    chans = {}
                    if "grp" in f:
                        for nm in ("x", "y"):
                            if nm in f["grp"]:
                                chans[nm] = f["grp"][nm]
                    for nm in ("x", "y"):
                        if bool(o["exists"][nm]) != (nm in chans):
                            fail(i, "channel-existence", channel=nm, expected=o["exists"][nm])
                        elif nm in chans and len(chans[nm]) != o["len"][nm]:
                            fail(i, "length", channel=nm, expected=o["len"][nm], observed=len(chans[nm]))
                    if bool(f.file_status.incomplete_final_segment) != bool(o["incomplete"]):
                        fail(i, "status", expected=o["incomplete"], observed=f.file_status.incomplete_final_segment)
                elif op == "window":
                    ch = chans.get(o["ch"])
                    if ch is None:
                        fail(i, "channel-missing", channel=o["ch"])
                        break
                    got = proj.elems(ch.read_data(o["off"], None if o["len"] == NONE else o["len"]))
                    exp = written[o["ch"]][o["first"]:o["first"] + o["count"]]
                    if got != exp:
                        fail(i, "window", expected=exp[:8], observed=got[:8])
                elif op == "chunks":
                    ch = chans.get(o["ch"])
                    got = []
                    run = 0
                    for chunk in ch.data_chunks():
                        if len(chunk) and chunk.offset != run:
                            fail(i, "chunk-offset", offset=chunk.offset, run=run)
                        got.extend(proj.elems(chunk[:]))
                        run += len(chunk)
                    exp = written[o["ch"]][:o["count"]]
                    if got != exp:
                        fail(i, "chunks", expected=exp[:8], observed=got[:8])
                elif op == "close_reader":
                    f.close()
                    if o["lazy"] and chans:
                        nm, ch = sorted(chans.items())[0]
                        if len(ch) > 0:
                            try:
                                ch.read_data()
                                fail(i, "read-after-close-returned-data", channel=nm)
                            except Exception:  # noqa
                                pass
            except Exception as ex:  # noqa
                import traceback
                fail(i, "raised", exception=traceback.format_exc()[-900:])
                break
            if fails:
                break
    finally:
        try:
            if writer is not None:
                writer.close()
            if f is not None:
                f.close()
        except Exception:  # noqa
            pass
        shutil.rmtree(tmp, ignore_errors=True)
    ops = [o["op"] for o in hist]
    nontrivial = "crash" in ops or ops.count("open_reader") >= 1
    return {"n": n, "keys": [zlib.crc32(repr(hist).encode())] if nontrivial else [], "fails": fails, "validated": 1,
            "obs": {"behaviours_with_crash": 1 if "crash" in ops else 0,
                    "behaviours_with_defragment": 1 if "defragment" in ops else 0,
                    "behaviours_appending_to_a_defragmented_copy": 1 if ("defragment" in ops and "write" in ops[ops.index("defragment"):]) else 0,
                    "behaviours_with_two_sessions": 1 if ops.count("open_writer") >= 2 else 0}}


def run_system(chk, walks, depth=14, cfg_over=None):
    from .genrun import run_config
    ov = {"MaxHist": depth - 2}
    ov.update(cfg_over or {})
    run_config(chk, "MC_System", "MC_System.cfg", ov,
               lambda rec, i: {"rec": rec, "seed": chk.seed},
               "harness.system", "replay_system_case",
               sample_fn=lambda rec: {"hist": rec["hist"]}, sample_every=499, simulate=walks, depth=depth,
               expect_all_states=False,
               label="MC_System.cfg %s simulate %d walks (write -> crash -> read with/without index)" % (ov, walks))
