"""Independent structural parser: TDMS bytes -> parse events (trusted base; standard library only).
Follows the declared lengths; records what it found next to what was declared so that a specification can judge."""
import struct

from .enc import TYPES

CODE2NAME = {v[0]: k for k, v in TYPES.items()}
CODE2NAME[0] = "Void"


def _u32(b, o, be):
    return struct.unpack_from(">I" if be else "<I", b, o)[0]


def _u64(b, o, be):
    return struct.unpack_from(">Q" if be else "<Q", b, o)[0]


class ParseError(Exception):
    pass


def components(path):
    """object path -> list of names (independent scanner: names are quoted, a quote inside a name is doubled)"""
    out = []
    i = 0
    n = len(path)
    if path == "/":
        return out
    while i < n:
        if path[i] != "/" or i + 1 >= n or path[i + 1] != "'":
            raise ParseError("bad path %r" % path)
        i += 2
        name = []
        while True:
            if i >= n:
                raise ParseError("unterminated name in %r" % path)
            if path[i] == "'":
                if i + 1 < n and path[i + 1] == "'":
                    name.append("'")
                    i += 2
                    continue
                i += 1
                break
            name.append(path[i])
            i += 1
        out.append("".join(name))
    return out


def parent_of(path):
    comps = components(path)
    if len(comps) == 0:
        return ""
    if len(comps) == 1:
        return "/"
    return "/'" + comps[0].replace("'", "''") + "'"


def parse(data, index=False):
    """-> list of segment events.  For an index file (index=True) segments follow each other without raw data."""
    segs = []
    pos = 0
    n = len(data)
    while pos < n:
        ev = {"pos": pos}
        if n - pos < 28:
            ev["error"] = "short lead-in"
            segs.append(ev)
            break
        ev["tag"] = data[pos:pos + 4].decode("latin1")
        toc = struct.unpack_from("<i", data, pos + 4)[0]
        be = bool(toc & (1 << 6))
        ev["toc"] = toc
        ev["be"] = be
        ev["version"], ev["next_off"], ev["raw_off"] = struct.unpack_from((">" if be else "<") + "iQQ", data, pos + 8)
        o = pos + 28
        try:
            if toc & 2:
                nobj = _u32(data, o, be)
                o += 4
                ev["objs"] = []
                for _ in range(nobj):
                    ob = {}
                    plen = _u32(data, o, be)
                    o += 4
                    ob["path_len"] = plen
                    ob["path"] = data[o:o + plen].decode("utf-8")
                    ob["parent"] = parent_of(ob["path"])
                    if len(data[o:o + plen]) != plen:
                        raise ParseError("path runs past end of file")
                    o += plen
                    hdr = _u32(data, o, be)
                    o += 4
                    ob["idx_hdr"] = hdr if hdr < (1 << 31) else -1
                    if hdr == 0xFFFFFFFF:
                        ob["kind"] = "nodata"
                    elif hdr == 0:
                        ob["kind"] = "same"
                    elif hdr in (0x1269, 0x126A):
                        raise ParseError("DAQmx index in writer output")
                    else:
                        ob["kind"] = "full"
                        code, dim = _u32(data, o, be), _u32(data, o + 4, be)
                        cnt = _u64(data, o + 8, be)
                        o += 16
                        ob["type"] = CODE2NAME.get(code, "code%d" % code)
                        ob["dim"] = dim
                        ob["n"] = cnt
                        if ob["type"] == "String":
                            ob["total"] = _u64(data, o, be)
                            o += 8
                            ob["idx_bytes"] = 28       # bytes of the index block, its length field included
                        else:
                            ob["total"] = -1
                            ob["idx_bytes"] = 20
                    nprops = _u32(data, o, be)
                    o += 4
                    ob["props"] = []
                    for _ in range(nprops):
                        pr = {}
                        nl = _u32(data, o, be)
                        o += 4
                        pr["name"] = data[o:o + nl].decode("utf-8")
                        o += nl
                        code = _u32(data, o, be)
                        o += 4
                        pr["type"] = CODE2NAME.get(code, "code%d" % code)
                        if pr["type"] == "String":
                            sl = _u32(data, o, be)
                            o += 4
                            pr["hex"] = data[o:o + sl].hex()
                            o += sl
                        else:
                            sz = TYPES[pr["type"]][1] if pr["type"] in TYPES else None
                            if sz is None:
                                raise ParseError("property of unsized type %s" % pr["type"])
                            pr["hex"] = data[o:o + sz].hex()
                            o += sz
                        ob["props"].append(pr)
                    ev["objs"].append(ob)
            else:
                ev["objs"] = []
            if o > n:
                raise ParseError("metadata runs past end of file")
            ev["meta_parsed"] = o - (pos + 28)
        except (struct.error, UnicodeDecodeError, ParseError, KeyError) as ex:
            ev["error"] = "metadata: %s" % ex
            segs.append(ev)
            break
        ev["meta_crc"] = _crc(data[pos + 4:pos + 28 + ev["meta_parsed"]])
        if index:
            nxt = pos + 28 + ev["meta_parsed"]
            ev["raw_len"] = 0
        else:
            nxt = pos + 28 + ev["next_off"]
            ev["raw_len"] = min(nxt, n) - (pos + 28 + ev["raw_off"])
            ev["raw_start"] = pos + 28 + ev["raw_off"]
        segs.append(ev)
        if nxt <= pos:
            ev["error"] = "segment does not advance"
            break
        pos = nxt
    return segs


def _crc(b):
    import zlib
    return zlib.crc32(b) & 0x3FFFFFFF
