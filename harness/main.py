"""Entry point: ./check <id> --tier quick|thorough [--replay path]"""
import argparse
import importlib
import os
import sys
import traceback


def main():
    ap = argparse.ArgumentParser()
    ap.add_argument("prop")
    ap.add_argument("--tier", default=os.environ.get("VERIF_TIER", "quick"), choices=["quick", "thorough"])
    ap.add_argument("--replay", default=None)
    a = ap.parse_args()
    mod = importlib.import_module("harness.props.%s" % a.prop.lower())
    try:
        if a.replay:
            rc = mod.replay(a.replay)
        else:
            rc = mod.run(a.tier)
    except Exception:
        traceback.print_exc()
        print("MACHINERY-FAILURE property=%s" % a.prop)
        rc = 2
    sys.exit(rc)


if __name__ == "__main__":
    main()
