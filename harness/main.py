"""Entry point: ./check <id> --tier quick|thorough [--replay path]"""
import argparse
import importlib
import os
import sys
import traceback


def generic_replay(prop, path):
    """Show a stored counterexample (what was asked, what the specification expects, what the library did) and, when the
    bundle carries the bytes of the input file, read those bytes again with the library under test.  Exit 1: the file is
    a recorded violation (it does not re-decide the property; the check does)."""
    import io
    import json
    with open(path) as fh:
        doc = json.load(fh)
    b = doc.get("bundle", doc)
    print("REPLAY property=%s tier=%s seed=%s" % (doc.get("property", prop), doc.get("tier"), doc.get("seed")))
    print("signature: %s" % json.dumps(doc.get("signature"), sort_keys=True))
    for k in sorted(b):
        if k == "hex":
            continue
        v = json.dumps(b[k], sort_keys=True, default=str)
        print("  %-14s %s" % (k + ":", v if len(v) < 1500 else v[:1500] + " ..."))
    hx = b.get("hex")
    if isinstance(hx, str) and hx:
        from nptdms import TdmsFile
        from . import proj
        data = bytes.fromhex(hx)
        print("  input file:    %d bytes; read again with the library under test:" % len(data))
        for mode in ("read", "open"):
            try:
                f = getattr(TdmsFile, mode)(io.BytesIO(data), raw_timestamps=True)
                v = json.dumps(proj.project_file(f), sort_keys=True, default=str)
                print("    %-5s -> %s" % (mode, v if len(v) < 1200 else v[:1200] + " ..."))
            except Exception as ex:  # noqa
                print("    %-5s -> %s: %s" % (mode, type(ex).__name__, ex))
    return 1


def main():
    ap = argparse.ArgumentParser()
    ap.add_argument("prop")
    ap.add_argument("--tier", default=os.environ.get("VERIF_TIER", "quick"), choices=["quick", "thorough"])
    ap.add_argument("--replay", default=None)
    a = ap.parse_args()
    mod = importlib.import_module("harness.props.%s" % a.prop.lower())
    try:
        if a.replay:
            rc = mod.replay(a.replay) if hasattr(mod, "replay") else generic_replay(a.prop, a.replay)
        else:
            rc = mod.run(a.tier)
    except Exception:
        traceback.print_exc()
        print("MACHINERY-FAILURE property=%s" % a.prop)
        rc = 2
    sys.exit(rc)


if __name__ == "__main__":
    main()
