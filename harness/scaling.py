"""C13 / C14 replay: scale graphs as NI_Scale properties; scaled values, purity, windows; dtypes of every read."""
import io
import struct
import zlib

import numpy as np

from . import enc, proj

TDMS_OF = {"int8": "Int8", "int16": "Int16", "int32": "Int32", "int64": "Int64", "uint8": "Uint8", "uint16": "Uint16",
           "uint32": "Uint32", "uint64": "Uint64", "float32": "SingleFloat", "float64": "DoubleFloat"}
RAWSRC = 0xFFFFFFFF
G = "/'grp'"
C = "/'grp'/'c'"
Z = "/'grp'/'z'"          # a channel of the same type with no values (zero-length variant)


def _d(v):
    return ["DoubleFloat", struct.pack("<d", float(v))]


def _u(v):
    return ["Uint32", struct.pack("<I", v)]


def _i(v):
    return ["Int32", struct.pack("<i", v)]


def _s(v):
    return ["String", v]


def _src(s):
    return RAWSRC if s == -1 else s


def scale_props(sc, given=True, status="unscaled", unsupported=False):
    props = [["NI_Scaling_Status"] + _s(status)]
    if given:
        props.append(["NI_Number_Of_Scales"] + _u(len(sc)))
    for i, s in enumerate(sc):
        p = "NI_Scale[%d]" % i
        k = s["kind"]
        if k == "Scaler":
            continue                      # a DAQmx raw scaler: no NI_Scale[i]_Scale_Type property
        if unsupported:
            props.append([p + "_Scale_Type"] + _s("Bogus"))
            continue
        if k == "Linear":
            props += [[p + "_Scale_Type"] + _s("Linear"), [p + "_Linear_Slope"] + _d(s["p"]["slope"]),
                      [p + "_Linear_Y_Intercept"] + _d(s["p"]["icpt"]), [p + "_Linear_Input_Source"] + _u(_src(s["src"]))]
        elif k == "Polynomial":
            props += [[p + "_Scale_Type"] + _s("Polynomial"), [p + "_Polynomial_Coefficients_Size"] + _u(len(s["c"])),
                      [p + "_Polynomial_Input_Source"] + _u(_src(s["src"]))]
            # (property order carries no meaning: the coefficients are listed from the highest power down)
            props += [[p + "_Polynomial_Coefficients[%d]" % j] + _d(c) for j, c in reversed(list(enumerate(s["c"])))]
        elif k == "Table":
            t = s["t"]
            props += [[p + "_Scale_Type"] + _s("Table"), [p + "_Table_Scaled_Values_Size"] + _u(len(t["ins"])),
                      [p + "_Table_Pre_Scaled_Values_Size"] + _u(len(t["outs"])),
                      [p + "_Table_Input_Source"] + _u(_src(s["src"]))]
            props += [[p + "_Table_Scaled_Values[%d]" % j] + _d(v) for j, v in enumerate(t["ins"])]
            props += [[p + "_Table_Pre_Scaled_Values[%d]" % j] + _d(v) for j, v in enumerate(t["outs"])]
        elif k == "NoOp":
            props += [[p + "_Scale_Type"] + _s("AdvancedAPI"), [p + "_AdvancedAPI_Input_Source"] + _u(_src(s["src"]))]
        elif k in ("Add", "Subtract"):
            props += [[p + "_Scale_Type"] + _s(k), [p + "_%s_Left_Operand_Input_Source" % k] + _u(_src(s["l"])),
                      [p + "_%s_Right_Operand_Input_Source" % k] + _u(_src(s["r"]))]
        elif k == "Sensor":
            sk = s["sensor"]
            props.append([p + "_Scale_Type"] + _s(sk))
            if sk == "RTD":
                for nm, v in (("Current_Excitation", 0.001), ("R0_Nominal_Resistance", 100.0), ("A", 0.0039083),
                              ("B", -5.775e-07), ("C", -4.183e-12), ("Lead_Wire_Resistance", 0.0)):
                    props.append([p + "_RTD_" + nm] + _d(v))
                props += [[p + "_RTD_Resistance_Configuration"] + _u(3), [p + "_RTD_Input_Source"] + _u(RAWSRC)]
            elif sk == "Thermocouple":
                props += [[p + "_Thermocouple_Thermocouple_Type"] + _u(10073), [p + "_Thermocouple_Scaling_Direction"] + _u(0),
                          [p + "_Thermocouple_Input_Source"] + _u(RAWSRC)]
            elif sk == "Thermistor":
                props += [[p + "_Thermistor_Excitation_Type"] + _u(10322), [p + "_Thermistor_Resistance_Configuration"] + _u(3),
                          [p + "_Thermistor_Input_Source"] + _u(RAWSRC)]
                for nm, v in (("Excitation_Value", 2.5), ("R1_Reference_Resistance", 10000.0), ("Lead_Wire_Resistance", 0.0),
                              ("A", 0.0010295), ("B", 0.0002391), ("C", 1.568e-07), ("Temperature_Offset", 273.15)):
                    props.append([p + "_Thermistor_" + nm] + _d(v))
            elif sk == "Strain":
                props += [[p + "_Strain_Configuration"] + _u(10183), [p + "_Strain_Input_Source"] + _u(RAWSRC)]
                for nm, v in (("Poisson_Ratio", 0.3), ("Gage_Resistance", 350.0), ("Lead_Wire_Resistance", 0.0),
                              ("Initial_Bridge_Voltage", 0.0), ("Gage_Factor", 2.1),
                              ("Bridge_Shunt_Calibration_Gain_Adjustment", 1.0), ("Voltage_Excitation", 2.5)):
                    props.append([p + "_Strain_" + nm] + _d(v))
    return props


OTHER = [{"kind": "Linear", "src": -1, "p": {"slope": 10, "icpt": 100}},
         {"kind": "Linear", "src": 0, "p": {"slope": 1, "icpt": 7}}]


def level_props(case, level):
    what = case["place"][level]
    if what == "none":
        return []
    if what == "main":
        return scale_props(case["scales"], given=bool(case["given"]))
    if what == "other":
        return scale_props(OTHER, given=True)
    if what == "scaled":
        return scale_props(OTHER, given=True, status="scaled")
    if what == "unsupported":
        return scale_props(OTHER, given=True, unsupported=True)
    raise ValueError(what)


def build_scaled_file(case, data, variant=0, with_zero_channel=True):
    raw = case["raw"]
    ty = TDMS_OF[raw]
    be = variant % 2 == 1
    two_segments = (variant // 2) % 2 == 1
    vals = [np.array([v], dtype=enc.NPTYPE[ty]).tobytes() for v in data]
    h = len(vals) // 2 if two_segments else len(vals)
    segs = []
    first = {"meta": True, "newlist": True, "be": be, "il": False, "k": 1,
             "listed": [{"p": "/", "kind": "nodata", "props": level_props(case, "root")},
                        {"p": G, "kind": "nodata", "props": level_props(case, "group")},
                        {"p": C, "kind": "full", "props": level_props(case, "channel")}],
             "objs": [{"p": "/", "has": False, "n": 0, "ty": None}, {"p": G, "has": False, "n": 0, "ty": None},
                      {"p": C, "has": True, "n": h, "ty": ty}]}
    if (variant // 4) % 2 == 1:
        # the channel is declared before its group (and the root last): object order must not matter for the lookup
        first["listed"] = [first["listed"][2], first["listed"][1], first["listed"][0]]
        first["objs"] = [first["objs"][2], first["objs"][1], first["objs"][0]]
    if with_zero_channel:
        first["listed"].append({"p": Z, "kind": "full", "props": level_props(case, "channel")})
        first["objs"].append({"p": Z, "has": True, "n": 0, "ty": ty})
    segs.append(first)
    if two_segments:
        segs.append({"meta": True, "newlist": True, "be": not be, "il": False, "k": 1,
                     "listed": [{"p": C, "kind": "full", "props": []}],
                     "objs": [{"p": C, "has": True, "n": len(vals) - h, "ty": ty}]})
    return {"segs": segs, "_values": {C: vals}}


def build_scaled_daqmx_file(case, data, variant=0, dl=False):
    """one DAQmx channel with two raw scalers (ids 0 and 1) in one raw buffer; scaler id holds data + 10 * id
    (dl: digital-line scalers addressing one bit each - random buffer bytes, used for dtype questions only)"""
    sc = case["scales"]
    tys = [TDMS_OF[sc[0]["ty"]], TDMS_OF[sc[1]["ty"]]]
    sz = [enc.size_of(t) for t in tys]
    pad = variant % 3
    widths = [sz[0] + sz[1] + pad]
    be = (variant // 3) % 2 == 1
    forced = {C: {i: [np.array([v + 10 * i], dtype=enc.NPTYPE[tys[i]]).tobytes() for v in data] for i in (0, 1)}}
    two = (variant // 6) % 2 == 1 and len(data) % 2 == 0
    d = {"kind": "fc", "widths": widths, "scalers": [{"id": 0, "ty": tys[0], "buf": 0, "off": pad},
                                                     {"id": 1, "ty": tys[1], "buf": 0, "off": pad + sz[0]}]}
    if dl:
        d = {"kind": "dl", "widths": widths, "scalers": [{"id": 0, "ty": tys[0], "buf": 0, "off": 8 * pad + 2},
                                                         {"id": 1, "ty": tys[1], "buf": 0, "off": 8 * (pad + sz[0]) + 5}]}
        forced = None
    seg = {"meta": True, "newlist": True, "be": be, "il": False, "k": 1,
           "listed": [{"p": "/", "kind": "nodata", "props": []}, {"p": G, "kind": "nodata", "props": []},
                      {"p": C, "kind": "full", "props": scale_props(sc, given=True)}],
           "objs": [{"p": "/", "has": False, "n": 0, "ty": None}, {"p": G, "has": False, "n": 0, "ty": None},
                    {"p": C, "has": True, "n": len(data), "ty": None, "daqmx": d}],
           "daqmx_values": forced}
    return {"segs": [seg]}


NAMES = [("grp", "c"), ("Dev1/Measurements", "Dev1/ai0"), ("it's", "a/b/c"), ("g/", "c'")]


def rename(fd, gname, cname):
    """the same file with other names for the group and the scaled channel (slashes and quotes in names must not
    matter for the lookup of group- and file-level scaling properties)"""
    def q(x):
        return "'" + x.replace("'", "''") + "'"
    m = {G: "/" + q(gname), C: "/" + q(gname) + "/" + q(cname), Z: "/" + q(gname) + "/" + q("z")}
    for seg in fd["segs"]:
        for key in ("listed", "objs"):
            for o in seg[key]:
                o["p"] = m.get(o["p"], o["p"])
        if "daqmx_values" in seg:
            seg["daqmx_values"] = {m.get(k, k): v for k, v in seg["daqmx_values"].items()}
    if "_values" in fd:
        fd["_values"] = {m.get(k, k): v for k, v in fd["_values"].items()}
    return fd


def encode_with_values(fd, seed):
    """encode, forcing the channel values given in fd['_values'] (the encoder's generator is bypassed)"""
    forced = fd.pop("_values", {})
    orig = enc.value
    counters = {}

    def fixed(ty, p, k, seed=0, width=None):
        if p in forced:
            return forced[p][k]
        return orig(ty, p, k, seed, width)
    enc.value = fixed
    try:
        return enc.encode(fd, seed)
    finally:
        enc.value = orig


def _nums(arr):
    a = np.asarray(arr)
    if a.dtype.kind == "f":
        return [float(x) for x in a]
    return [int(x) for x in a]


def _same(vals, expected):
    return len(vals) == len(expected) and all(float(v) == float(e) for v, e in zip(vals, expected))


def replay_scaling_case(case):
    """worker for C13"""
    from nptdms import TdmsFile
    rec = case["rec"]
    c = rec["case"]
    exp = rec["expect"]
    seed = case["seed"]
    h = zlib.crc32(repr(c).encode())
    variant = (h + seed) % 8
    daq = c["scales"][0]["kind"] == "Scaler"
    if daq:
        variant = (h + seed) % 12
        fd = build_scaled_daqmx_file(c, rec["data"], variant)
    else:
        fd = build_scaled_file(c, rec["data"], variant, with_zero_channel=False)
    gname, cname = NAMES[(h // 5 + seed) % len(NAMES)]
    rename(fd, gname, cname)
    e = encode_with_values(fd, seed)
    fails = []
    n = 0
    kinds = sorted(set(s["kind"] for s in c["scales"]))
    bundle = {"case": c, "expect": exp, "variant": variant, "seed": seed, "hex": e.data.hex(), "names": [gname, cname]}

    def sig(kind, **kw):
        s = {"kind": kind, "scale_kinds": kinds, "raw": c["raw"], "effective_level":
             next((lv for lv in ("channel", "group", "root") if c["place"][lv] in ("main", "other")), "none")}
        s.update(kw)
        return s

    rawexp = [float(v) for v in rec["data"]]
    if daq:
        rawexp = {i: [float(v + 10 * i) for v in rec["data"]] for i in (0, 1)}

    def rawnums(ch):
        r = ch.read_data(scaled=False)
        return {int(k): _nums(v) for k, v in r.items()} if isinstance(r, dict) else _nums(r)
    for mode in ("eager", "lazy"):
        try:
            f = TdmsFile.read(io.BytesIO(e.data)) if mode == "eager" else TdmsFile.open(io.BytesIO(e.data))
            ch = f[gname][cname]
            before = rawnums(ch)
            raw_snapshot = (b"".join(ch.raw_scaler_data[i].tobytes() for i in (0, 1)) if daq else ch.raw_data.tobytes()) \
                if mode == "eager" else None
            n += 1
            if exp["judged"]:
                got = _nums(ch[:])
                if not _same(got, exp["vals"]):
                    fails.append((sig("scaled-values", mode=mode), dict(bundle, mode=mode, observed=got)))
                w = _nums(ch.read_data(1, 3))
                if not _same(w, exp["vals"][1:4]):
                    fails.append((sig("window-of-scaled", mode=mode), dict(bundle, mode=mode, observed=w)))
                sl = _nums(ch[3:1:-1])
                if not _same(sl, exp["vals"][3:1:-1]):
                    fails.append((sig("slice-of-scaled", mode=mode), dict(bundle, mode=mode, observed=sl)))
                if mode == "lazy":
                    cat = []
                    for chunk in ch.data_chunks():
                        cat.extend(_nums(chunk[:]))
                    if not _same(cat, exp["vals"]):
                        fails.append((sig("chunks-of-scaled"), dict(bundle, observed=cat)))
                    one = float(ch[2])
                    if one != float(exp["vals"][2]):
                        fails.append((sig("index-of-scaled"), dict(bundle, observed=one)))
            else:
                ch[:]      # sensor scales / unrepresentable intermediates: evaluated but not judged on values
            after = rawnums(ch)
            if before != rawexp or after != rawexp:
                fails.append((sig("raw-data-changed", mode=mode), dict(bundle, before=before, after=after)))
            if raw_snapshot is not None and (b"".join(ch.raw_scaler_data[i].tobytes() for i in (0, 1)) if daq
                                             else ch.raw_data.tobytes()) != raw_snapshot:
                fails.append((sig("raw-data-changed", mode=mode, how="in-place"), dict(bundle)))
            if mode == "lazy":
                f.close()
        except Exception as ex:  # noqa
            import traceback
            fails.append((sig("raised", mode=mode, exception=type(ex).__name__, judged=bool(exp["judged"])),
                          dict(bundle, mode=mode, exception=traceback.format_exc()[-900:])))
    return {"n": n, "keys": [h] if exp["scaled"] else [], "fails": fails, "validated": 1,
            "obs": {"not_judged_on_values": 0 if exp["judged"] else 1}}


# ------------------------------------------------------------------------------------------------ C14
def dtype_ops(ch, f, mode, path_names):
    """every kind of successful read of a channel -> list of (op name, emptiness, result)"""
    n = len(ch)
    out = []

    def add(name, fn):
        try:
            out.append((name, fn()))
        except Exception as ex:  # noqa
            out.append((name, ex))
    add("[:]", lambda: ch[:])
    add("[...]", lambda: ch[...])
    add("read_data()", lambda: ch.read_data())
    add("read_data(1,2)", lambda: ch.read_data(1, 2))
    add("[1:3]", lambda: ch[1:3])
    add("[::2]", lambda: ch[::2])
    add("[::-1]", lambda: ch[::-1])
    add("read_data(0,0)", lambda: ch.read_data(0, 0))
    add("[2:2]", lambda: ch[2:2])
    add("[100:200]", lambda: ch[100:200])
    add("read_data(len+5)", lambda: ch.read_data(n + 5))
    if mode == "eager":
        add(".data", lambda: ch.data)
    else:
        def chunks():
            return [c[:] for c in ch.data_chunks()]
        def fchunks():
            return [dc[path_names[0]][path_names[1]][:] for dc in f.data_chunks()]
        try:
            for i, a in enumerate(chunks()):
                out.append(("chunk[%d][:]" % i, a))
        except Exception as ex:  # noqa
            out.append(("chunk[:]", ex))
        try:
            for i, a in enumerate(fchunks()):
                out.append(("filechunk[%d][:]" % i, a))
        except Exception as ex:  # noqa
            out.append(("filechunk[:]", ex))
    return out


def judge_dtypes(ch, ops, expected_dtype, exempt_declared, where, fails, sig, bundle):
    """expected_dtype: numpy dtype the specification states (None: only internal consistency is asserted)"""
    declared = ch.dtype
    probs = []
    if expected_dtype is not None and not exempt_declared and declared != expected_dtype:
        probs.append(("channel.dtype", "declared %s, specification %s" % (declared, expected_dtype)))
    seen = None
    for name, res in ops:
        if isinstance(res, Exception):
            probs.append((name, "raised %s: %s" % (type(res).__name__, res)))
            continue
        if not isinstance(res, np.ndarray):
            probs.append((name, "returned %s, not an array" % type(res).__name__))
            continue
        if exempt_declared:
            if seen is None:
                seen = (name, res.dtype)
            elif res.dtype != seen[1]:
                probs.append((name, "dtype %s but %s returned %s" % (res.dtype, seen[0], seen[1])))
        elif res.dtype != declared:
            probs.append((name, "dtype %s, channel.dtype %s" % (res.dtype, declared)))
        if name in ("[:]", "read_data()", "[...]", ".data") and len(res) != len(ch):
            probs.append((name, "%d elements, len(channel) %d" % (len(res), len(ch))))
    for name, what in probs[:3]:
        opk = "chunk" if "chunk" in name else ("empty" if name in ("read_data(0,0)", "[2:2]", "[100:200]", "read_data(len+5)") else
                                                 ("declared" if name == "channel.dtype" else "read"))
        fails.append((sig(opk, where), dict(bundle, where=where, op=name, problem=what)))


def replay_dtype_scaled_case(case):
    """worker for C14 over TdmsScaling cases (scaled numeric channels incl. sensor scales)"""
    from nptdms import TdmsFile
    rec = case["rec"]
    c = rec["case"]
    exp = rec["expect"]
    seed = case["seed"]
    h = zlib.crc32(repr(c).encode())
    variant = (h + seed) % 4
    daq = c["scales"][0]["kind"] == "Scaler"
    if daq:
        variant = (h + seed) % 12
        # unsigned scaler types may also be digital-line scalers (one addressed bit, same declared type)
        dl = all(s_["ty"].startswith("uint") for s_ in c["scales"][:2]) and (h // 5 + seed) % 2 == 1
        fd = build_scaled_daqmx_file(c, rec["data"], variant, dl=dl)
    else:
        fd = build_scaled_file(c, rec["data"], variant, with_zero_channel=True)
    e = encode_with_values(fd, seed)
    fails = []
    kinds = sorted(set((s.get("sensor") or s["kind"]) for s in c["scales"])) if exp["scaled"] else []
    bundle = {"case": c, "expect_dtype": exp["dtype"], "variant": variant, "seed": seed, "hex": e.data.hex()}
    n = 0
    for mode in ("eager", "lazy"):
        try:
            f = TdmsFile.read(io.BytesIO(e.data)) if mode == "eager" else TdmsFile.open(io.BytesIO(e.data))
        except Exception as ex:  # noqa
            n += 1
            fails.append(({"kind": "dtype", "op": "open", "mode": mode, "raw": c["raw"], "scale_kinds": kinds,
                           "zero_length": False, "big_endian_segment": False, "type_kind": "numeric",
                           "raw_timestamps": False, "exception": type(ex).__name__},
                          dict(bundle, exception="%s: %s" % (type(ex).__name__, ex))))
            continue
        for nm in (("c",) if daq else ("c", "z")):
            ch = f["grp"][nm]

            def sig(opk, where, nm=nm, mode=mode):
                return {"kind": "dtype", "op": opk, "mode": mode, "raw": c["raw"], "scale_kinds": kinds,
                        "zero_length": nm == "z", "big_endian_segment": variant % 2 == 1 or (variant // 2) % 2 == 1,
                        "type_kind": "numeric", "raw_timestamps": False}
            ops = dtype_ops(ch, f, mode, ("grp", nm))
            n += len(ops)
            judge_dtypes(ch, ops, np.dtype(exp["dtype"]), False, nm, fails, sig, bundle)
        if mode == "lazy":
            f.close()
    return {"n": n, "keys": [h], "fails": fails[:6], "validated": 1}


def replay_dtype_plain_case(case):
    """worker for C14 over TdmsSegments files (unscaled channels of all 17 types, both raw_timestamps settings)"""
    from nptdms import TdmsFile
    from .segments import to_fd, _as_dict
    rec = case["rec"]
    seed = case["seed"]
    if not rec["file"] or rec["status"] != "ok":
        return {"n": 0, "keys": [], "fails": [], "validated": 0}
    fd = to_fd(rec, seed)
    tys = _as_dict(rec["view"]["ty"])
    if zlib.crc32(repr(rec["file"]).encode()) % 3 == 0 and "TimeStamp" in tys.values():
        # whole-second timestamps: every fraction is zero
        orig = enc.value

        def whole_seconds(ty, p, k, seed=0, width=None, extra=0):
            if ty == "TimeStamp":
                return struct.pack("<Qq", 0, 3000000000 + 7 * k)
            return orig(ty, p, k, seed, width, extra)
        enc.value = whole_seconds
        try:
            e = enc.encode(fd, seed)
        finally:
            enc.value = orig
    else:
        e = enc.encode(fd, seed)
    fails = []
    n = 0
    be = any(s["be"] for s in rec["file"])
    from .parser import components
    for rawts in (False, True):
        for mode in ("eager", "lazy"):
            try:
                f = (TdmsFile.read if mode == "eager" else TdmsFile.open)(io.BytesIO(e.data), raw_timestamps=rawts)
            except Exception as ex:  # noqa
                n += 1
                fails.append(({"kind": "dtype", "op": "open", "mode": mode, "raw": sorted(set(tys.values()))[0],
                               "scale_kinds": [], "zero_length": False, "big_endian_segment": be, "type_kind": "any",
                               "raw_timestamps": rawts, "exception": type(ex).__name__},
                              {"file": rec["file"], "ty": rec["ty"], "seed": seed, "hex": e.data.hex(),
                               "raw_timestamps": rawts, "exception": "%s: %s" % (type(ex).__name__, ex)}))
                continue
            for p, ty in tys.items():
                if ty == "none":
                    continue
                g, cn = components(p)
                ch = f[g][cn]
                exp_name = proj.expected_dtype(ty, raw_timestamps=False)
                expdt = np.dtype("O") if exp_name == "object" else np.dtype(exp_name)
                exempt = rawts and ty == "TimeStamp"

                def sig(opk, where, ty=ty, mode=mode, rawts=rawts):
                    return {"kind": "dtype", "op": opk, "mode": mode, "raw": ty, "scale_kinds": [],
                            "zero_length": False, "big_endian_segment": be, "type_kind": enc.TYPES[ty][2],
                            "raw_timestamps": rawts}
                ops = dtype_ops(ch, f, mode, (g, cn))
                n += len(ops)
                judge_dtypes(ch, ops, expdt, exempt, p, fails, sig,
                             {"file": rec["file"], "ty": rec["ty"], "seed": seed, "hex": e.data.hex(), "raw_timestamps": rawts})
            if mode == "lazy":
                f.close()
    return {"n": n, "keys": [zlib.crc32(repr(rec["file"]).encode())], "fails": fails[:6], "validated": 1}
