"""C11 replay: DAQmx raw data decoded at the declared buffer, stride, offset and type."""
import io
import zlib

from . import enc, proj

TYPES_BY_SIZE = {1: ["Uint8", "Int8"], 2: ["Uint16", "Int16"], 4: ["Uint32", "Int32", "SingleFloat"],
                 8: ["Uint64", "Int64", "DoubleFloat"]}
UTYPES = {1: "Uint8", 2: "Uint16", 4: "Uint32", 8: "Uint64"}


def cpath(i):
    return "/'grp'/'c%d'" % i


def build_daqmx(cfg, seed, variant=0):
    h = zlib.crc32(("%d/%d/%r" % (seed, variant, cfg)).encode())
    objs, listed = [], []
    widths = list(cfg["widths"])
    for i, ch in enumerate(cfg["chans"]):
        scalers = []
        for s, sc in enumerate(ch["scalers"]):
            if cfg["kind"] == "dl":
                ty = UTYPES[sc["sz"]]
            else:
                cl = TYPES_BY_SIZE[sc["sz"]]
                ty = cl[(h // (3 + i + 2 * s)) % len(cl)]
            scalers.append({"id": s, "ty": ty, "buf": sc["buf"] - 1, "off": sc["off"]})
        n = cfg["rows"][ch["buf"] - 1]
        props = [["NI_Scaling_Status", "String", "unscaled"],
                 ["NI_Number_Of_Scales", "Uint32", len(scalers).to_bytes(4, "little")]]
        objs.append({"p": cpath(i), "has": True, "n": n, "ty": None,
                     "daqmx": {"kind": cfg["kind"], "scalers": scalers, "widths": widths}})
        listed.append({"p": cpath(i), "kind": "full", "props": props})
    seg = {"meta": True, "newlist": True, "be": bool(cfg["be"]), "il": False, "listed": listed, "objs": objs,
           "k": cfg["k"]}
    return {"segs": [seg]}


def expected_values(cfg, fd, e, pos):
    """bytes found at the positions the specification computes, as little-endian element bytes"""
    base = e.segs[0]["dataPos"]
    be = bool(cfg["be"])
    out = {}
    for i, ch in enumerate(cfg["chans"]):
        for s, sc in enumerate(ch["scalers"]):
            ty = fd["segs"][0]["objs"][i]["daqmx"]["scalers"][s]["ty"]
            sz = sc["sz"]
            vals = []
            for p in pos[i][s]:
                b = e.data[base + p: base + p + sz]
                le = b[::-1] if be else b
                if cfg["kind"] == "dl":
                    iv = (int.from_bytes(le, "little") >> (sc["off"] % 8)) & 1
                    le = iv.to_bytes(sz, "little")
                vals.append(le.hex())
            out[(i, s)] = (ty, vals)
    return out


def _scaler_elems(d):
    return {int(k): proj.elems(v) for k, v in d.items()}


def replay_daqmx_case(case):
    from nptdms import TdmsFile
    rec = case["rec"]
    cfg = rec["cfg"]
    seed = case["seed"]
    fd = build_daqmx(cfg, seed, case.get("variant", 0))
    e = enc.encode(fd, seed)
    if e.segs[0]["chunkBytes"] != rec["chunkBytes"]:
        raise AssertionError("chunk size: encoder %d, specification %d" % (e.segs[0]["chunkBytes"], rec["chunkBytes"]))
    exp = expected_values(cfg, fd, e, rec["pos"])
    fails = []
    n = 0
    bundle = {"cfg": cfg, "seed": seed, "variant": case.get("variant", 0), "hex": e.data.hex()}

    def sig(kind, **kw):
        s = {"kind": kind, "daqmx": cfg["kind"], "be": bool(cfg["be"]), "buffers": len(cfg["widths"]),
             "split_channel": any(len({sc_["buf"] for sc_ in ch_["scalers"]}) > 1 for ch_ in cfg["chans"])}
        s.update(kw)
        return s

    try:
        fe = TdmsFile.read(io.BytesIO(e.data))
        fl = TdmsFile.open(io.BytesIO(e.data))
    except Exception as ex:  # noqa
        return {"n": 1, "keys": [], "validated": 1,
                "fails": [(sig("read-raised", exception=type(ex).__name__), dict(bundle, exception=repr(ex)))]}
    for i, ch in enumerate(cfg["chans"]):
        nm = "c%d" % i
        want = {s: exp[(i, s)][1] for s in range(len(ch["scalers"]))}
        last = len(ch["scalers"]) - 1
        total = len(want[0])
        for mode, f in (("eager", fe), ("lazy", fl)):
            c = f["grp"][nm]
            n += 1
            try:
                if len(c) != total:
                    fails.append((sig("length", mode=mode), dict(bundle, channel=nm, expected=total, observed=len(c))))
                got = _scaler_elems(c.read_data(scaled=False))
                if got != want:
                    fails.append((sig("scaler-values", mode=mode, path="read_data(scaled=False)"),
                                  dict(bundle, channel=nm, expected=want, observed=got)))
                if mode == "eager":
                    got = _scaler_elems(c.raw_scaler_data)
                    if got != want:
                        fails.append((sig("scaler-values", mode=mode, path="raw_scaler_data"),
                                      dict(bundle, channel=nm, expected=want, observed=got)))
                full = proj.elems(c[:])
                if full != want[last]:
                    fails.append((sig("scaler-values", mode=mode, path="channel[:]"),
                                  dict(bundle, channel=nm, expected=want[last], observed=full)))
                # lazy / eager windows equal slices of the full result
                for off in range(0, total + 2):
                    for ln in [None] + list(range(0, total + 2)):
                        n += 1
                        w = proj.elems(c.read_data(off, ln))
                        ex = want[last][off:] if ln is None else want[last][off:off + ln]
                        if w != ex:
                            fails.append((sig("window", mode=mode), dict(bundle, channel=nm, off=off, len=ln,
                                                                          expected=ex, observed=w)))
                            break
                    else:
                        continue
                    break
                wd = _scaler_elems(c.read_data(1, 2, scaled=False))
                if wd != {s: v[1:3] for s, v in want.items()}:
                    fails.append((sig("window", mode=mode, path="unscaled"), dict(bundle, channel=nm, observed=wd)))
                if mode == "lazy":
                    cat, run = [], 0
                    for chunk in c.data_chunks():
                        if len(chunk) and chunk.offset != run:
                            fails.append((sig("chunk-offset"), dict(bundle, channel=nm, offset=chunk.offset, run=run)))
                        cat.extend(proj.elems(chunk[:]))
                        run += len(chunk)
                    if cat != want[last]:
                        fails.append((sig("chunk-stream", stream="channel"), dict(bundle, channel=nm, expected=want[last],
                                                                               observed=cat)))
                    cat = []
                    for dc in f.data_chunks():
                        cat.extend(proj.elems(dc["grp"][nm][:]))
                    if cat != want[last]:
                        fails.append((sig("chunk-stream", stream="file"), dict(bundle, channel=nm, expected=want[last],
                                                                            observed=cat)))
                    for idx in (0, total - 1, -1):
                        if total:
                            v = proj._scalar(c[idx])
                            if v != want[last][idx]:
                                fails.append((sig("index", mode=mode), dict(bundle, channel=nm, i=idx)))
            except Exception as ex:  # noqa
                import traceback
                fails.append((sig("raised", mode=mode, exception=type(ex).__name__),
                              dict(bundle, channel=nm, exception=traceback.format_exc()[-800:])))
    fl.close()
    # the same file through a raw stream that returns raw data in short pieces (5 bytes per call)
    try:
        from .recstream import ShortReadStream
        n += 1
        fs = TdmsFile.read(ShortReadStream(e.data, e.segs[0]["dataPos"], 5))
        for i, ch in enumerate(cfg["chans"]):
            want = {s: exp[(i, s)][1] for s in range(len(ch["scalers"]))}
            got = _scaler_elems(fs["grp"]["c%d" % i].read_data(scaled=False))
            if got != want:
                fails.append((sig("scaler-values", mode="eager", path="short-reading raw stream"),
                              dict(bundle, channel="c%d" % i, expected=want, observed=got)))
    except Exception as ex:  # noqa
        fails.append((sig("raised", mode="eager", path="short-reading raw stream", exception=type(ex).__name__),
                      dict(bundle, exception="%s: %s" % (type(ex).__name__, ex))))
    # truncated final chunk: complete rows only
    cb = rec["chunkBytes"]
    base = e.segs[0]["dataPos"]
    rems = list(range(1, cb))
    if case.get("stride", 1) > 1:
        rems = [r for r in rems if (r + seed) % case["stride"] == 0 or r in (1, cb - 1)]
    for rem in rems:
        cut = base + (cfg["k"] - 1) * cb + rem
        rows = rec["trunc"][rem - 1]
        for mode in ("eager", "lazy"):
            n += 1
            try:
                f = TdmsFile.read(io.BytesIO(e.data[:cut])) if mode == "eager" else TdmsFile.open(io.BytesIO(e.data[:cut]))
                for i, ch in enumerate(cfg["chans"]):
                    c = f["grp"]["c%d" % i]
                    b = ch["buf"] - 1
                    # a channel has as many values as its shortest scaler: complete rows of every buffer it draws on
                    want_len = cfg["rows"][b] * (cfg["k"] - 1) + min(rows[sc_["buf"] - 1] for sc_ in ch["scalers"])
                    got = _scaler_elems(c.read_data(scaled=False)) if len(c) else {}
                    lens = {len(v) for v in got.values()} or {0}
                    if len(c) != want_len or lens != {want_len}:
                        fails.append((sig("truncated-rows", mode=mode), dict(bundle, channel=i, rem=rem, expected=want_len,
                                                                             observed=[len(c), sorted(lens)])))
                    for s, v in got.items():
                        if v != exp[(i, s)][1][:len(v)]:
                            fails.append((sig("truncated-values", mode=mode), dict(bundle, channel=i, rem=rem)))
                if mode == "lazy":
                    f.close()
            except Exception as ex:  # noqa
                fails.append((sig("truncated-raised", mode=mode, exception=type(ex).__name__),
                              dict(bundle, rem=rem, exception="%s: %s" % (type(ex).__name__, ex))))
        if len(fails) > 6:
            break
    return {"n": n, "keys": [zlib.crc32(repr(cfg).encode())], "fails": fails[:8], "validated": 1}


def large_sparse_check():
    """A segment with more than 2 GiB of raw data (1 100 000 chunks of 1000 Int16 values), once as DAQmx raw data and once
    as a plain channel.  The file is sparse: a few known values are written, the rest reads as zeros, so it costs no disk
    space, and only a handful of chunks are read: windows around value 2^30 and at both ends, the first chunks of the
    stream.  Offsets and counts beyond 31 / 32 bits must not wrap.  -> list of (signature, bundle)"""
    import os
    import struct
    import tempfile
    import shutil
    import numpy as np
    from nptdms import TdmsFile
    from .common import ROOT
    CH, NCH = 1000, 1100000
    TOTAL = CH * NCH

    def tstr(x):
        b = x.encode("utf-8")
        return struct.pack("<L", len(b)) + b
    known = {0: 11, 1: 12, 999: 13, 1000: 14, 2 ** 30 - 1: 15, 2 ** 30: 16, 2 ** 30 + 1: 17, TOTAL - 1000: 18,
             TOTAL - 2: 19, TOTAL - 1: 20}
    fails = []
    tmp = tempfile.mkdtemp(prefix="c11-big-", dir=os.path.join(ROOT, ".work"))
    try:
        for storage in ("daqmx", "plain"):
            path_ = "/'Group'/'Channel1'"
            if storage == "daqmx":
                scaler = struct.pack("<LLLLL", 3, 0, 0, 0, 0)
                obj = tstr(path_) + struct.pack("<LLLQ", 0x1269, 2, 1, CH) + struct.pack("<L", 1) + scaler + \
                    struct.pack("<LL", 1, 2) + struct.pack("<L", 0)
                toc = (1 << 1) | (1 << 2) | (1 << 3) | (1 << 7)
            else:
                obj = tstr(path_) + struct.pack("<LLLQ", 20, 2, 1, CH) + struct.pack("<L", 0)
                toc = (1 << 1) | (1 << 2) | (1 << 3)
            meta = struct.pack("<L", 1) + obj
            size = 2 * TOTAL
            lead = b"TDSm" + struct.pack("<llQQ", toc, 4713, len(meta) + size, len(meta))
            start = len(lead) + len(meta)
            fp = os.path.join(tmp, storage + ".tdms")
            with open(fp, "wb") as fh:
                fh.write(lead + meta)
                for i, v in known.items():
                    fh.seek(start + 2 * i)
                    fh.write(struct.pack("<h", v))
                fh.truncate(start + size)
            probs = []
            try:
                with TdmsFile.open(fp) as f:
                    ch = f["Group"]["Channel1"]
                    if len(ch) != TOTAL:
                        probs.append("len(channel) = %r, expected %d" % (len(ch), TOTAL))
                    for off, ln in [(0, 3), (998, 4), (2 ** 30 - 2, 5), (TOTAL - 1001, 3), (TOTAL - 3, 3)]:
                        got = ch.read_data(off, ln)
                        want = np.array([known.get(i, 0) for i in range(off, off + ln)], dtype=np.int16)
                        if got.dtype != want.dtype or not np.array_equal(got, want):
                            probs.append("read_data(%d, %d) = %r, expected %r" % (off, ln, got.tolist(), want.tolist()))
                    for i in (2 ** 30, TOTAL - 1, -2):
                        v = ch[i]
                        if int(v) != known[i % TOTAL]:
                            probs.append("channel[%d] = %r, expected %d" % (i, v, known[i % TOTAL]))
                    it = ch.data_chunks()
                    a, b = next(it)[:], next(it)[:]
                    if a[0] != 11 or a[999] != 13 or b[0] != 14:
                        probs.append("data_chunks(): first chunks start %r / %r" % (a[:2].tolist(), b[:2].tolist()))
            except Exception as ex:  # noqa
                probs.append("reading raised %s: %s" % (type(ex).__name__, ex))
            os.remove(fp)
            if probs:
                fails.append(({"kind": "large-file", "storage": storage, "what": probs[0].split(" ")[0]},
                              {"storage": storage, "chunks": NCH, "values_per_chunk": CH, "problems": probs[:6]}))
    finally:
        shutil.rmtree(tmp, ignore_errors=True)
    return fails
