"""A binary stream that records every read as (position, bytes returned)."""
import io


class RecordingStream(object):
    def __init__(self, data):
        self._b = io.BytesIO(data)
        self.reads = []
        self.recording = False
        self.closed_by_callee = False

    def read(self, n=-1):
        pos = self._b.tell()
        out = self._b.read(n)
        if self.recording and len(out) > 0:
            self.reads.append([pos, len(out)])
        return out

    def readinto(self, buf):
        pos = self._b.tell()
        n = self._b.readinto(buf)
        if self.recording and n:
            self.reads.append([pos, n])
        return n

    def seek(self, *a):
        return self._b.seek(*a)

    def tell(self):
        return self._b.tell()

    def close(self):
        self.closed_by_callee = True
        self._b.close()

    @property
    def closed(self):
        return self._b.closed

    def take(self):
        r, self.reads = self.reads, []
        return r


class RawRecordingStream(io.RawIOBase):
    """the same, as a genuine unbuffered raw stream (io.RawIOBase): what a caller gets from open(p, "rb", buffering=0)
    or from a device wrapper; every byte the library pulls through it is a fetch"""

    def __init__(self, data):
        io.RawIOBase.__init__(self)
        self._b = io.BytesIO(data)
        self.reads = []
        self.recording = False

    def readable(self):
        return True

    def seekable(self):
        return True

    def readinto(self, buf):
        pos = self._b.tell()
        n = self._b.readinto(buf)
        if self.recording and n:
            self.reads.append([pos, n])
        return n

    def seek(self, *a):
        return self._b.seek(*a)

    def tell(self):
        return self._b.tell()

    def take(self):
        r, self.reads = self.reads, []
        return r


class ShortReadStream(io.RawIOBase):
    """a raw stream that hands out at most `limit' bytes per call while positioned inside raw data (raw streams may always
    return fewer bytes than asked for: pipes, sockets, device files, very large reads).  `regions' = [(start, end), ...]
    of raw data; an int means "from there to the end"."""

    def __init__(self, data, regions, limit):
        io.RawIOBase.__init__(self)
        self._b = io.BytesIO(data)
        self._regions = [(regions, len(data))] if isinstance(regions, int) else list(regions)
        self._limit = limit

    def readable(self):
        return True

    def seekable(self):
        return True

    def readinto(self, buf):
        pos = self._b.tell()
        if len(buf) > self._limit and any(a <= pos < b for a, b in self._regions):
            part = self._b.read(self._limit)
            memoryview(buf).cast("B")[:len(part)] = part
            return len(part)
        return self._b.readinto(buf)

    def seek(self, *a):
        return self._b.seek(*a)

    def tell(self):
        return self._b.tell()
