"""A binary stream that records every read as (position, bytes returned)."""
import io


class RecordingStream(object):
    def __init__(self, data):
        self._b = io.BytesIO(data)
        self.reads = []
        self.recording = False
        self.closed_by_callee = False

    def read(self, n=-1):
        pos = self._b.tell()
        out = self._b.read(n)
        if self.recording and len(out) > 0:
            self.reads.append([pos, len(out)])
        return out

    def readinto(self, buf):
        pos = self._b.tell()
        n = self._b.readinto(buf)
        if self.recording and n:
            self.reads.append([pos, n])
        return n

    def seek(self, *a):
        return self._b.seek(*a)

    def tell(self):
        return self._b.tell()

    def close(self):
        self.closed_by_callee = True
        self._b.close()

    @property
    def closed(self):
        return self._b.closed

    def take(self):
        r, self.reads = self.reads, []
        return r
