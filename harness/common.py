"""Shared check plumbing: verdicts, known findings, evidence, replay bundles, parallel replay."""
import hashlib
import json
import multiprocessing as mp
import os
import sys
import time

ROOT = os.path.dirname(os.path.dirname(os.path.abspath(__file__)))
EVIDENCE_DIR = os.path.join(ROOT, "evidence")
REPLAY_DIR = os.path.join(ROOT, "replays")
if os.environ.get("VERIF_REPO", "/repo") != "/repo":
    # development aid (selftest/eval_seeded.sh runs the checks against a scratch copy carrying a seeded change): such a
    # run must not overwrite the evidence and replays of /repo itself
    EVIDENCE_DIR = os.path.join(ROOT, ".work", "scratch-evidence")
    REPLAY_DIR = os.path.join(ROOT, ".work", "scratch-replays")
KNOWN = os.path.join(ROOT, "known_findings.json")
REPO = os.environ.get("VERIF_REPO", "/repo")


def seed():
    try:
        return int(os.environ.get("VERIF_SEED", "0"))
    except ValueError:
        return 0


def jdump(x):
    return json.dumps(x, sort_keys=True, default=_default)


def _default(o):
    if isinstance(o, bytes):
        return "0x" + o.hex()
    if isinstance(o, (set, frozenset)):
        return sorted(o)
    return repr(o)


def load_known(prop):
    if not os.path.exists(KNOWN):
        return []
    with open(KNOWN) as fh:
        doc = json.load(fh)
    return [e for e in doc.get("findings", []) if e.get("property") == prop and e.get("status") == "open"]


def sig_matches(signature, case_sig):
    """A violation matches an open finding only if its abstract signature satisfies every field."""
    for k, v in signature.items():
        if k not in case_sig:
            return False
        cv = case_sig[k]
        if isinstance(v, list):
            if cv not in v:
                return False
        elif isinstance(v, dict) and "min" in v:
            if not (isinstance(cv, (int, float)) and cv >= v["min"]):
                return False
        elif cv != v:
            return False
    return True


class Check(object):
    """Collects the outcome of one run of one property's check."""

    def __init__(self, prop, tier):
        self.prop = prop
        self.tier = tier
        self.seed = seed()
        self.t0 = time.time()
        self.violations = []        # (signature, bundle)
        self.known_hits = {}        # finding index -> count
        self.known = load_known(prop)
        self.cov = {"states": 0, "transitions": 0, "traces_validated_against_impl": 0, "samples": [],
                    "evaluations": 0, "distinct_nontrivial": 0, "exhaustive": True, "tlc_runs": [],
                    "observations": {}}
        self.assumptions = []
        self._distinct = set()
        self.max_report = int(os.environ.get('VERIF_MAX_REPORT', '5'))

    # ---- coverage bookkeeping
    def add_tlc(self, label, res, exhaustive=True):
        self.cov["states"] += res.distinct
        self.cov["transitions"] += res.generated
        self.cov["tlc_runs"].append({"config": label, "distinct_states": res.distinct, "states_generated": res.generated,
                                     "depth": res.depth, "wall_s": round(res.wall, 2),
                                     "gen_cases": res.gen, "coverage": res.coverage or None,
                                     "exhaustive": exhaustive})
        if not exhaustive:
            self.cov["exhaustive"] = False

    def sample(self, case, limit=4):
        if len(self.cov["samples"]) < limit:
            self.cov["samples"].append(case)

    def count(self, n_eval, nontrivial_keys=()):
        self.cov["evaluations"] += n_eval
        for k in nontrivial_keys:
            self._distinct.add(k)

    def validated(self, n):
        self.cov["traces_validated_against_impl"] += n

    def observe(self, key, n=1):
        self.cov["observations"][key] = self.cov["observations"].get(key, 0) + n

    # ---- verdicts
    def violation(self, signature, bundle):
        """signature: small dict describing the abstract failing case (matched against known findings)."""
        for i, kf in enumerate(self.known):
            if sig_matches(kf["signature"], signature):
                self.known_hits[i] = self.known_hits.get(i, 0) + 1
                return
        self.violations.append((signature, bundle))

    def model_violation(self, label, res):
        self.violations.append(({"kind": "specification", "config": label, "violated": res.violated},
                                {"kind": "specification", "config": label, "violated": res.violated,
                                 "tlc_error": res.error_text[-4000:]}))

    def finish(self, level="model_checking", rule="", extra=None):
        wall = time.time() - self.t0
        self.cov["distinct_nontrivial"] = len(self._distinct)
        self.cov["rule"] = rule
        if extra:
            self.cov.update(extra)
        rc = 0
        for i, n in sorted(self.known_hits.items()):
            kf = self.known[i]
            print("KNOWN-FINDING: property=%s %s (%d cases this run)" % (self.prop, kf.get("what", jdump(kf["signature"])), n))
        paths = []
        if self.violations:
            rc = 1
            os.makedirs(REPLAY_DIR, exist_ok=True)
            # write out one replay bundle per distinct signature first, so that different ways of failing show
            seen, ordered, rest = set(), [], []
            for v in self.violations:
                k = jdump(v[0])
                (rest if k in seen else ordered).append(v)
                seen.add(k)
            self.violations = ordered + rest
            for sig, bundle in self.violations[: self.max_report]:
                h = hashlib.sha1(jdump([sig, bundle]).encode()).hexdigest()[:12]
                path = os.path.join(REPLAY_DIR, "%s-%s.json" % (self.prop, h))
                with open(path, "w") as fh:
                    fh.write(jdump({"property": self.prop, "signature": sig, "bundle": bundle, "seed": self.seed,
                                    "tier": self.tier}))
                paths.append(path)
                print("VIOLATION property=%s replay=%s" % (self.prop, path))
                print("  signature: %s" % jdump(sig)[:600])
            if len(self.violations) > self.max_report:
                print("  (+%d further violating cases not written out)" % (len(self.violations) - self.max_report))
                hist = {}
                for sig, _ in self.violations:
                    k = jdump(sig)
                    hist[k] = hist.get(k, 0) + 1
                for k, n in sorted(hist.items(), key=lambda kv: -kv[1])[:12]:
                    print("  %6d x %s" % (n, k[:300]))
        ev = {"property_id": self.prop, "tier": self.tier, "seed": self.seed, "level": level,
              "coverage": self.cov, "assumptions": self.assumptions, "wall_s": round(wall, 2),
              "violations": len(self.violations),
              "known_findings_seen": sum(self.known_hits.values())}
        os.makedirs(EVIDENCE_DIR, exist_ok=True)
        with open(os.path.join(EVIDENCE_DIR, "%s.json" % self.prop), "w") as fh:
            json.dump(ev, fh, indent=1, sort_keys=True, default=_default)
        print("%s %s: %s  states=%d transitions=%d replayed=%d evaluations=%d distinct_nontrivial=%d wall=%.1fs" % (
            self.prop, self.tier, "HELD" if rc == 0 else "VIOLATED", self.cov["states"], self.cov["transitions"],
            self.cov["traces_validated_against_impl"], self.cov["evaluations"], self.cov["distinct_nontrivial"], wall))
        return rc


# ------------------------------------------------------------------ parallel replay of GEN cases
_worker_fn = None


def _init_worker(fn_module, fn_name, repo):
    global _worker_fn
    sys.path.insert(0, repo)
    import importlib
    import logging
    logging.disable(logging.WARNING)        # npTDMS warns about every truncated file; the checks read thousands
    import warnings
    warnings.simplefilter("ignore")
    _worker_fn = getattr(importlib.import_module(fn_module), fn_name)


class CaseTimeout(BaseException):     # not an Exception: the replay code's own broad handlers must not swallow it
    pass


def _on_alarm(signum, frame):
    raise CaseTimeout("no answer within %d s" % CASE_SECONDS)


CASE_SECONDS = 600
_hung = False


def _run_batch(batch):
    import signal
    global _hung
    out = []
    signal.signal(signal.SIGALRM, _on_alarm)
    for case in batch:
        if _hung:
            # one library call that never returned is a verdict; replaying thousands more at 3 minutes each is not
            out.append({"n": 0, "keys": [], "validated": 0, "fails": [], "obs": {"not_replayed_after_a_hang": 1}})
            continue
        try:
            signal.alarm(CASE_SECONDS)      # a replayed case takes milliseconds to seconds; a library call that never
            try:                            # returns (a lock held across a yield, an endless loop) must not hang the check
                out.append(_worker_fn(case))
            finally:
                signal.alarm(0)
        except CaseTimeout as e:
            _hung = True
            small = {k: v for k, v in case.items() if k != "rec"} if isinstance(case, dict) else {}
            out.append({"n": 1, "keys": [], "validated": 0,
                        "fails": [({"kind": "library-hung", "seconds": CASE_SECONDS},
                                   {"case": case.get("rec") if isinstance(case, dict) else None, "params": small,
                                    "problem": str(e)})]})
        except Exception as e:
            import traceback
            frames = traceback.extract_tb(e.__traceback__)
            if any(os.sep + "nptdms" + os.sep in fr.filename for fr in frames):
                # the library under test raised where the replay did not expect it to: that is an observation about the
                # library (a violation of whatever property the replay is checking), not a failure of the machinery
                lib = [fr for fr in frames if os.sep + "nptdms" + os.sep in fr.filename][-1]
                small = {k: v for k, v in case.items() if k != "rec"} if isinstance(case, dict) else {}
                out.append({"n": 1, "keys": [], "validated": 0,
                            "fails": [({"kind": "library-raised", "exception": type(e).__name__,
                                        "where": "%s:%s" % (os.path.basename(lib.filename), lib.name)},
                                       {"case": case.get("rec") if isinstance(case, dict) else None, "params": small,
                                        "traceback": traceback.format_exc()[-2000:]})]})
            else:   # harness bug: surfaced as machinery failure by the caller
                out.append({"machinery": "%s: %s\n%s" % (type(e).__name__, e, traceback.format_exc())})
    return out


class Replayer(object):
    """Feeds abstract cases to a pool of processes running the real library; worker returns
    {"n": evaluations, "keys": [...distinct non-trivial keys...], "fails": [(signature, bundle), ...]}"""

    def __init__(self, fn_module, fn_name, procs=None, batch=200):
        self.pool = mp.Pool(procs or min(16, os.cpu_count() or 4), _init_worker, (fn_module, fn_name, REPO))
        self.batch = batch
        self.buf = []
        self.pending = []
        self.results = []
        self.submitted = 0

    def add(self, case):
        self.buf.append(case)
        self.submitted += 1
        if len(self.buf) >= self.batch:
            self._flush()

    def _flush(self):
        if self.buf:
            self.pending.append(self.pool.apply_async(_run_batch, (self.buf,)))
            self.buf = []
        # keep memory bounded
        while len(self.pending) > 64:
            self.results.extend(self.pending.pop(0).get())

    def finish(self):
        self._flush()
        for p in self.pending:
            self.results.extend(p.get())
        self.pending = []
        self.pool.close()
        self.pool.join()
        return self.results


class Machinery(Exception):
    pass


def absorb(check, results):
    """Fold worker results into the Check."""
    for r in results:
        if "machinery" in r:
            raise Machinery(r["machinery"])
        check.count(r.get("n", 1), r.get("keys", ()))
        check.validated(r.get("validated", 1))
        for k, v in (r.get("obs") or {}).items():
            check.observe(k, v)
        for sig, bundle in r.get("fails", ()):
            if isinstance(sig, dict) and sig.get("kind") == "library-hung":
                check.hung = True           # genrun.run_config does not start further configurations after a hang
            check.violation(sig, bundle)
