"""Projection of npTDMS results into the abstract vocabulary of the specifications (DESIGN.md section 4).

Everything here turns *observed* library results into plain JSON-able values; nothing here decides what
is right.  Arrays are projected to (dtype name, list of little-endian element byte strings as hex)."""
import struct
import numpy as np

from . import enc


def norm_dtype(dt):
    """dtype name with native byte order made explicit-neutral ('int32', 'float64', 'object', ...)."""
    dt = np.dtype(dt)
    if dt.names:
        return "record(" + ",".join(dt.names) + ")"
    return dt.newbyteorder("=").name if dt.kind != "O" else "object"


def dtype_is_native(dt):
    dt = np.dtype(dt)
    return dt.byteorder in ("=", "|") or (dt.byteorder == "<")


def elems(arr):
    """Array (or list) -> list of per-element canonical values: hex of little-endian bytes, or str for objects."""
    if arr is None:
        return None
    if isinstance(arr, (list, tuple)):
        return [_scalar(x) for x in arr]
    a = np.asarray(arr)
    if a.dtype.names:
        names = a.dtype.names
        if set(names) == {"seconds", "second_fractions"}:
            s = np.asarray(a["seconds"]).astype("<i8")
            f = np.asarray(a["second_fractions"]).astype("<u8")
            return [struct.pack("<Qq", int(ff), int(ss)).hex() for ss, ff in zip(s, f)]
        raise ValueError("unexpected record dtype %r" % (a.dtype,))
    if a.dtype.kind == "O":
        return [_scalar(x) for x in a.tolist()]
    if a.dtype.kind in "mM":
        a = a.view("i8") if a.dtype.byteorder != ">" else a.astype(a.dtype.newbyteorder("<")).view("i8")
        return [struct.pack("<q", int(x)).hex() for x in a]
    le = a.astype(a.dtype.newbyteorder("<"), copy=False)
    raw = np.ascontiguousarray(le).tobytes()
    sz = le.dtype.itemsize
    return [raw[i * sz:(i + 1) * sz].hex() for i in range(len(le))]


def _scalar(x):
    if isinstance(x, str):
        return "s:" + x
    if hasattr(x, "seconds") and hasattr(x, "second_fractions"):
        return struct.pack("<Qq", int(x.second_fractions), int(x.seconds)).hex()
    if isinstance(x, (np.generic,)):
        return elems(np.array([x]))[0]
    if isinstance(x, bytes):
        return "b:" + x.hex()
    return "py:" + repr(x)


def indexed_scalar(x):
    """what channel[i] returned: as _scalar, but a bare NumPy record (np.void) instead of the library's scalar
    timestamp type is told apart (every position of a channel must answer an integer index with the same kind of object)"""
    if isinstance(x, np.void):
        return "void:" + _scalar(x)
    return _scalar(x)


def expected_elems(ty, values):
    """values as produced by the encoder (le bytes / str) -> same canonical form as elems()."""
    if ty == "String":
        return ["s:" + v for v in values]
    return [v.hex() for v in values]


def expected_dtype(ty, raw_timestamps=False):
    if ty is None:
        return None
    if ty == "String":
        return "object"
    if ty == "TimeStamp":
        return "record(second_fractions,seconds)" if raw_timestamps else "datetime64[us]"
    return norm_dtype(enc.NPTYPE[ty])


def prop_canon(v):
    """A property value as returned by the library -> canonical (kind, value)."""
    if isinstance(v, str):
        return "s:" + v
    if hasattr(v, "seconds") and hasattr(v, "second_fractions"):
        # a timestamp property holds plain Python integers (datetime arithmetic such as as_datetime() needs them)
        plain = type(v.seconds) is int and type(v.second_fractions) is int
        return ("t:" if plain else "t(%s,%s):" % (type(v.seconds).__name__, type(v.second_fractions).__name__)) + \
            struct.pack("<Qq", int(v.second_fractions), int(v.seconds)).hex()
    if isinstance(v, bool):
        return "b:%d" % int(v)
    if isinstance(v, np.datetime64):
        return "dt:%d" % int(v.astype("datetime64[us]").astype("i8"))
    if isinstance(v, int):
        return "i:%d" % v
    if isinstance(v, float):
        return "f:" + struct.pack("<d", v).hex()
    if isinstance(v, np.generic):
        return "np:" + elems(np.array([v]))[0]
    return "py:" + repr(v)


def expected_prop_canon(pty, val):
    """Encoder property value (le bytes/str) of TDMS type pty -> what the library is expected to return for it
    with raw_timestamps=True (python int/float/bool/str or TdmsTimestamp)."""
    kind = enc.TYPES[pty][2]
    if kind == "string":
        return "s:" + val
    if kind == "time":
        return "t:" + val.hex()
    if kind == "bool":
        return "b:%d" % (1 if val != b"\x00" else 0)
    if kind in ("int", "uint"):
        return "i:%d" % int.from_bytes(val, "little", signed=(kind == "int"))
    if kind == "float":
        if len(val) == 4:
            return "f:" + struct.pack("<d", struct.unpack("<f", val)[0]).hex()
        return "f:" + val.hex()
    raise ValueError(pty)


def project_file(f, data=True, raw_timestamps=True):
    """TdmsFile -> view dict: objects, groups, per channel dtype/len/data, properties."""
    view = {"groups": [], "chans": {}, "props": {}, "gchans": {}, "version": f.tdms_version}
    view["props"]["/"] = {k: prop_canon(v) for k, v in f.properties.items()}
    for g in f.groups():
        view["groups"].append(g.path)
        view["props"][g.path] = {k: prop_canon(v) for k, v in g.properties.items()}
        view["gchans"][g.path] = [c.path for c in g.channels()]
        for c in g.channels():
            ch = {"len": len(c), "ty": None if c.data_type is None else c.data_type.__name__}
            view["props"][c.path] = {k: prop_canon(v) for k, v in c.properties.items()}
            if data:
                try:
                    arr = c[:]
                    ch["dtype"] = norm_dtype(arr.dtype) if hasattr(arr, "dtype") else type(arr).__name__
                    ch["data"] = elems(arr)
                except Exception as e:  # noqa
                    ch["error"] = "%s: %s" % (type(e).__name__, e)
            view["chans"][c.path] = ch
    probs = api_consistency(f)
    if probs:
        view["api"] = probs
    return view


def api_consistency(f):
    """the container protocol of TdmsFile / TdmsGroup tells the same story as groups() / channels()
    (iteration, len, in, indexing by name, name / group_name / path of what is found)"""
    probs = []
    try:
        groups = f.groups()
        names = [g.name for g in groups]
        if list(f) != names:
            probs.append("iter(file) %r != names of groups() %r" % (list(f), names))
        if len(f) != len(groups):
            probs.append("len(file) %d != %d" % (len(f), len(groups)))
        for g in groups:
            if g.name not in f or f[g.name].path != g.path:
                probs.append("file[%r] is not the group %r" % (g.name, g.path))
            chans = g.channels()
            cn = [c.name for c in chans]
            if list(g) != cn or len(g) != len(chans):
                probs.append("iter/len of group %r disagree with channels()" % g.path)
            for c in chans:
                if c.name not in g or g[c.name].path != c.path or c.group_name != g.name:
                    probs.append("group[%r] is not the channel %r" % (c.name, c.path))
        if "\x00no such group" in f:
            probs.append("a name that is no group is `in' the file")
    except Exception as e:  # noqa
        probs.append("%s: %s" % (type(e).__name__, e))
    return probs[:4]
