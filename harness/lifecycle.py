"""C20 replay: descriptors held by the library after every step of a construct / read / close history."""
import io
import os
import shutil
import tempfile
import zlib

import numpy as np

from . import enc
from .common import ROOT

SCRATCH = os.path.join(ROOT, ".work")
CH = "/'g'/'c'"
NEWCH = "/'g'/'d'"


def build_input(cfg, seed, longer_first=False):
    # longer_first: the same file but with one more chunk in the first segment; its index beside the shorter data
    # file places the second segment 8 bytes too far, which the segment start check detects when data is read
    first = {"meta": True, "newlist": True, "be": False, "il": False, "k": 3 if longer_first else 2,
             "listed": [{"p": "/", "kind": "nodata", "props": []},
                        {"p": CH, "kind": "full"}],
             "objs": [{"p": "/", "has": False, "n": 0, "ty": None}, {"p": CH, "has": True, "n": 2, "ty": "Int32"}]}
    second = {"meta": True, "newlist": True, "be": False, "il": False, "k": 1,
              "listed": [{"p": CH, "kind": "full"}], "objs": [{"p": CH, "has": True, "n": 3, "ty": "Int32"}]}
    fault = cfg["fault"]
    if fault == "bad_tag":
        first["tag"] = b"XXXX"
    elif fault == "bad_tag_second":
        second["tag"] = b"TDSx"
    elif fault == "unknown_type":
        second["listed"][0]["code"] = 0x99
    elif fault == "type_change":
        second["listed"][0]["ty"] = "DoubleFloat"
        second["objs"][0]["ty"] = "DoubleFloat"
    elif fault == "same_unseen":
        second["listed"].append({"p": NEWCH, "kind": "same"})
    return enc.encode({"segs": [first, second]}, seed)


def lib_fds(tmp, exclude=()):
    """roles of the descriptors of this process that point at .tdms / .tdms_index files of the scratch directory"""
    roles = set()
    for name in os.listdir("/proc/self/fd"):
        try:
            fd = int(name)
            if fd in exclude:
                continue
            target = os.readlink("/proc/self/fd/%d" % fd)
        except (OSError, ValueError):
            continue
        if target.startswith(tmp):
            roles.add("index" if target.endswith(".tdms_index") else ("data" if target.endswith(".tdms") else "other"))
    return roles


class Interrupting(object):
    """a file object whose second read() is interrupted (KeyboardInterrupt); everything else is the real file's"""

    def __init__(self, fo):
        object.__setattr__(self, "_fo", fo)
        object.__setattr__(self, "_reads", 0)

    def read(self, *a):
        object.__setattr__(self, "_reads", self._reads + 1)
        if self._reads == 2:
            raise KeyboardInterrupt("interrupted while reading")
        return self._fo.read(*a)

    def __getattr__(self, name):
        return getattr(self._fo, name)

    def __enter__(self):
        return self

    def __exit__(self, *a):
        return self._fo.__exit__(*a)


class InterruptingBytes(io.BytesIO):
    def __init__(self, data):
        io.BytesIO.__init__(self, data)
        self._reads = 0

    def read(self, *a):
        self._reads += 1
        if self._reads == 2:
            raise KeyboardInterrupt("interrupted while reading")
        return io.BytesIO.read(self, *a)


class OpenTracker(object):
    """interposes builtins.open: every file object opened on the scratch directory's .tdms / .tdms_index files while
    the library runs is kept referenced, so a handle that only garbage collection would close still counts as open"""

    def __init__(self, tmp, interrupt=False):
        import builtins
        self.interrupt = interrupt
        self.tmp = tmp
        self.builtins = builtins
        self.orig = builtins.open
        self.files = []
        self.active = False

    def __enter__(self):
        def tracked(file, *a, **kw):
            fo = self.orig(file, *a, **kw)
            try:
                name = os.fspath(file) if not isinstance(file, int) else ""
            except TypeError:
                name = ""
            if self.active and isinstance(name, str) and name.startswith(self.tmp) and \
                    (name.endswith(".tdms") or name.endswith(".tdms_index")):
                self.files.append((name, fo))
                if self.interrupt:
                    return Interrupting(fo)
            return fo
        self.builtins.open = tracked
        return self

    def __exit__(self, *a):
        self.builtins.open = self.orig

    def open_roles(self):
        return {("index" if n.endswith(".tdms_index") else "data") for n, fo in self.files if not fo.closed}


def replay_lifecycle_case(case):
    from nptdms import TdmsFile, TdmsWriter, ChannelObject
    rec = case["rec"]
    cfg = rec["cfg"]
    seed = case["seed"]
    variant = case.get("variant", 0)
    fails = []
    tmp = tempfile.mkdtemp(prefix="c20-", dir=SCRATCH)
    keep = []          # API objects and exceptions stay referenced: only explicit closing counts
    n = 0

    def sig(kind, op, **kw):
        s = {"kind": kind, "op": op, "source": cfg["source"], "index": cfg["index"], "fault": cfg["fault"]}
        s.update(kw)
        return s

    try:
        e = build_input(cfg, seed)
        path = os.path.join(tmp, "in.tdms")
        writer_only = any(o["op"] == "writer_with" for o in rec["hist"])
        if not writer_only:
            if cfg["index"] != "indexonly":
                with open(path, "wb") as fh:
                    fh.write(e.data)
            if cfg["index"] in ("index", "indexonly"):
                with open(path + "_index", "wb") as fh:
                    fh.write(e.index)
            elif cfg["index"] == "mismatch":
                other = build_input(cfg, seed, longer_first=True)
                with open(path + "_index", "wb") as fh:
                    fh.write(other.index)
        caller_streams = []
        exclude = set()

        def source():
            if cfg["source"] == "path":
                return path + "_index" if cfg["index"] == "indexonly" else path
            data = e.index if cfg["index"] == "indexonly" else e.data
            if cfg["fault"] == "interrupt":
                s = InterruptingBytes(data)
            elif variant % 3 == 0:
                s = io.BytesIO(data)
            else:
                p2 = os.path.join(tmp, "caller_stream.bin")
                with open(p2, "wb") as fh:
                    fh.write(data)
                # a buffered file object, or an unbuffered raw one (io.FileIO)
                s = open(p2, "rb") if variant % 3 == 1 else open(p2, "rb", buffering=0)
                exclude.add(s.fileno())
            caller_streams.append(s)
            return s

        f = None
        gen_it = None      # a chunk generator started while the file was open
        wr = None          # ONE writer object, entered once per writer_with step
        tracker = OpenTracker(tmp, interrupt=(cfg["fault"] == "interrupt"))
        tracker.__enter__()
        for i, o in enumerate(rec["hist"]):
            op = o["op"]
            n += 1
            raised = None
            during = None
            tracker.active = True
            try:
                if op == "read":
                    f = TdmsFile.read(source())
                elif op == "read_metadata":
                    f = TdmsFile.read_metadata(source())
                elif op == "open":
                    f = TdmsFile.open(source())
                elif op == "read_data":
                    ch = f["g"]["c"]
                    _ = ch[:]            # a read that needs the file (a cached chunk would not)
                elif op == "close":
                    f.close()
                elif op == "exit_with":
                    f.__exit__(None, None, None)
                elif op == "ctor_keep_open":
                    f = TdmsFile(source(), keep_open=True)
                elif op == "defragment":
                    dst = os.path.join(tmp, "defrag_out.tdms")
                    TdmsWriter.defragment(source(), dst, index_file=(cfg["index"] == "index"))
                elif op == "defragment_baddest":
                    dst = os.path.join(tmp, "no_such_dir", "defrag_out.tdms")
                    TdmsWriter.defragment(source(), dst, index_file=(cfg["index"] == "index"))
                elif op == "stream_start":
                    gen_it = iter(f["g"]["c"].data_chunks() if o["kind"] == "chan" else f.data_chunks())
                    for _ in range(o["taken"]):
                        next(gen_it)
                elif op == "stream_next":
                    try:
                        got = next(gen_it)
                    except StopIteration:
                        got = None
                    if got is not None or True:
                        # reached only when no error was raised: a chunk (or a silent end) after close()
                        pass
                    if got is None:
                        raise_marker = "ended"       # noqa: the stream ended silently although chunks remain
                elif op == "late_write":
                    wr.write_segment([ChannelObject("g", "c", np.arange(2, dtype=np.int32))])
                elif op == "writer_with":
                    wpath = os.path.join(tmp, "out.tdms")
                    if wr is not None:
                        pass
                    elif cfg["source"] == "path":
                        target, idx = wpath, cfg["index"] == "index"
                    else:
                        target = io.BytesIO()
                        idx = io.BytesIO() if cfg["index"] == "index" else False
                        caller_streams.extend([target] + ([idx] if idx else []))
                    if wr is None:
                        wr = TdmsWriter(target, index_file=idx)
                    with wr as w:
                        w.write_segment([ChannelObject("g", "c", np.arange(3, dtype=np.int32))])
                        during = lib_fds(tmp, exclude) | tracker.open_roles()
                        if o["raises"]:
                            raise KeyError("body of the with-block fails")
            except (Exception, KeyboardInterrupt) as ex:  # noqa
                raised = ex
                keep.append(ex)
            tracker.active = False
            keep.append(f)
            step = {"step": i + 1, "hist": rec["hist"][:i + 1]}
            if bool(raised is not None) != bool(o["raises"]):
                fails.append((sig("raises", op, expected=bool(o["raises"])),
                              dict(step, cfg=cfg, observed=repr(raised), variant=variant)))
                break
            if op == "writer_with" and during is not None and during != set(o["during"]):
                fails.append((sig("descriptors-during-with", op), dict(step, cfg=cfg, expected=o["during"],
                                                                       observed=sorted(during))))
            if o["fds"] != ["unspecified"]:
                now = lib_fds(tmp, exclude) | tracker.open_roles()
                if (not now <= set(o["fds"])) if o.get("atmost") else (now != set(o["fds"])):
                    fails.append((sig("descriptors", op, leaked=sorted(now - set(o["fds"]))),
                                  dict(step, cfg=cfg, expected=o["fds"], observed=sorted(now), variant=variant)))
                    break
            import gc
            gc.collect()
            for s in caller_streams:
                if s.closed:
                    fails.append((sig("caller-stream-closed", op), dict(step, cfg=cfg, variant=variant)))
                    break
        tracker.__exit__()
        for _, fo in tracker.files:
            try:
                fo.close()
            except Exception:  # noqa
                pass
        for s in caller_streams:
            try:
                s.close()
            except Exception:  # noqa
                pass
    finally:
        import builtins
        if getattr(builtins.open, "__name__", "") == "tracked":
            builtins.open = io.open
        del keep[:]
        shutil.rmtree(tmp, ignore_errors=True)
    key = zlib.crc32(repr((cfg, [(o["op"], o["raises"]) for o in rec["hist"]])).encode())
    return {"n": n, "keys": [key] if len(rec["hist"]) >= 2 else [], "fails": fails, "validated": 1}
