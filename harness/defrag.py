"""C10 replay: source file (TdmsSegments behaviour) -> TdmsWriter.defragment -> compare copy with source and with the
specification's view of the copy."""
import io
import os
import shutil
import tempfile
import zlib

from . import enc, proj
from .segments import to_fd, rotation, _as_dict, expected_props
from .common import ROOT

SCRATCH = os.path.join(ROOT, ".work")
NUMERIC = {"Int8", "Int16", "Int32", "Int64", "Uint8", "Uint16", "Uint32", "Uint64", "SingleFloat", "DoubleFloat",
           "SingleFloatWithUnit", "DoubleFloatWithUnit"}


def add_scaling(fd, rec, tm):
    """give the first numeric channel a Linear scaling (properties on its first listed occurrence)"""
    tys = _as_dict(rec["ty"])
    for s in fd["segs"]:
        for e in s["listed"]:
            t = tys.get(e["p"])
            t = tm.get(t, t) if tm else t
            if t in NUMERIC:
                import struct
                e["props"] = list(e["props"]) + [
                    ["NI_Scaling_Status", "String", "unscaled"],
                    ["NI_Number_Of_Scales", "Uint32", (1).to_bytes(4, "little")],
                    ["NI_Scale[0]_Scale_Type", "String", "Linear"],
                    ["NI_Scale[0]_Linear_Slope", "DoubleFloat", struct.pack("<d", 2.0)],
                    ["NI_Scale[0]_Linear_Y_Intercept", "DoubleFloat", struct.pack("<d", 1.0)],
                    ["NI_Scale[0]_Linear_Input_Source", "Uint32", (0xFFFFFFFF).to_bytes(4, "little")]]
                return e["p"]
    return None


def replay_defrag_case(case):
    from nptdms import TdmsFile, TdmsWriter
    rec = case["rec"]
    seed = case["seed"]
    if not rec["file"] or rec["status"] != "ok":
        return {"n": 0, "keys": [], "fails": [], "validated": 0}
    tm = rotation(case.get("rot", 0)) if case.get("rot") else None
    h = zlib.crc32(repr(rec["file"]).encode())
    # one source in three is big-endian throughout, one in three alternates (the copy is always little-endian)
    fd = to_fd(rec, seed, tm, flip_be=[None, "be", "swap"][(h // 5 + seed) % 3])
    scaled_chan = add_scaling(fd, rec, tm) if (h + seed) % 3 == 0 else None
    if (h // 7 + seed) % 5 == 0:
        # string channels holding only empty strings
        orig = enc.value

        def empty_strings(ty, p, k, seed=0, width=None, extra=0):
            return "" if ty == "String" else orig(ty, p, k, seed, width, extra)
        enc.value = empty_strings
        try:
            e = enc.encode(fd, seed)
        finally:
            enc.value = orig
    else:
        e = enc.encode(fd, seed)
    fails = []
    target = "path" if (h // 3 + seed) % 4 == 0 else "stream"
    index = (h // 12) % 2 == 1
    big = any(o["n"] > 100000 for s_ in rec["file"] for o in s_["layout"])
    if big and not case.get("_target"):
        a = replay_defrag_case(dict(case, _target="stream"))
        b = replay_defrag_case(dict(case, _target="path"))
        return {"n": a["n"] + b["n"], "keys": a["keys"], "fails": a["fails"] + b["fails"], "validated": 1}
    target = case.get("_target", target)
    bundle = {"case": rec["file"], "ty": rec["ty"], "seed": seed, "rot": case.get("rot", 0), "target": target,
              "index": index, "hex": e.data.hex(), "scaled_channel": scaled_chan}
    tys = {c: (None if t == "none" else (tm.get(t, t) if tm else t)) for c, t in _as_dict(rec["view"]["ty"]).items()}

    def sig(kind, **kw):
        s = {"kind": kind, "types": sorted(set(t for t in tys.values() if t))}
        s.update(kw)
        return s

    tmp = None
    try:
        if target == "path":
            tmp = tempfile.mkdtemp(prefix="c10-", dir=SCRATCH)
            dst = os.path.join(tmp, "copy.tdms")
            TdmsWriter.defragment(io.BytesIO(e.data), dst, index_file=index)
            copy_bytes = open(dst, "rb").read()
            if index:
                # the copy must read the same through its own index file (discovered beside it)
                try:
                    via_index = proj.project_file(TdmsFile.read(dst, raw_timestamps=True))
                    plain = proj.project_file(TdmsFile.read(io.BytesIO(copy_bytes), raw_timestamps=True))
                except Exception as ex:  # noqa
                    via_index, plain = {"exception": repr(ex)}, None
                if via_index != plain:
                    fails.append(({"kind": "copy-index-unusable"}, dict(bundle, with_index=via_index, without=plain)))
        else:
            out = io.BytesIO()
            iout = io.BytesIO() if index else False
            TdmsWriter.defragment(io.BytesIO(e.data), out, index_file=iout)
            copy_bytes = out.getvalue()
            if index:
                from . import parser as _p
                ie, de = _p.parse(iout.getvalue(), index=True), _p.parse(copy_bytes)
                if [(x.get("meta_crc"), x.get("next_off")) for x in ie] != [(x.get("meta_crc"), x.get("next_off")) for x in de]:
                    fails.append(({"kind": "copy-index-unusable", "target": "stream"}, dict(bundle)))
    except Exception as ex:  # noqa
        untyped = any(t is None for t in tys.values())
        lens = _as_dict(rec["view"]["len"])
        empty_special = any(lens[c] == 0 and tys[c] in ("String", "TimeStamp") for c in lens)
        fails.append((sig("defragment-raised", exception=type(ex).__name__, untyped_channel=untyped,
                          empty_string_or_timestamp=empty_special),
                      dict(bundle, exception="%s: %s" % (type(ex).__name__, ex))))
        return {"n": 1, "keys": [h], "fails": fails, "validated": 1}
    finally:
        if tmp:
            shutil.rmtree(tmp, ignore_errors=True)
    src = proj.project_file(TdmsFile.read(io.BytesIO(e.data), raw_timestamps=True))
    try:
        cpy = proj.project_file(TdmsFile.read(io.BytesIO(copy_bytes), raw_timestamps=True))
    except Exception as ex:  # noqa
        fails.append((sig("copy-unreadable", exception=type(ex).__name__),
                      dict(bundle, exception="%s: %s" % (type(ex).__name__, ex))))
        return {"n": 1, "keys": [h], "fails": fails, "validated": 1}
    spec_copy = rec["copy"]
    if cpy["groups"] != spec_copy["groups"] or cpy["groups"] != src["groups"]:
        fails.append((sig("groups"), dict(bundle, expected=spec_copy["groups"], observed=cpy["groups"])))
    gch = _as_dict(spec_copy["gchans"])
    for g in spec_copy["groups"]:
        if cpy["gchans"].get(g) != gch.get(g, []) or cpy["gchans"].get(g) != src["gchans"].get(g):
            fails.append((sig("channels"), dict(bundle, group=g, expected=gch.get(g), observed=cpy["gchans"].get(g))))
    lens = _as_dict(spec_copy["len"])
    for c, n in lens.items():
        s_, c_ = src["chans"].get(c), cpy["chans"].get(c)
        if c_ is None or s_ is None:
            fails.append((sig("channel-missing"), dict(bundle, channel=c)))
            continue
        if c_["len"] != n or c_["len"] != s_["len"]:
            fails.append((sig("length"), dict(bundle, channel=c, expected=n, observed=c_["len"])))
        elif c_.get("data") != s_.get("data"):
            fails.append((sig("values", source_type=tys[c]), dict(bundle, channel=c, expected=(s_.get("data") or [])[:6],
                                                                observed=(c_.get("data") or [])[:6])))
        elif tys[c] is not None and c != scaled_chan and \
                c_.get("data") != proj.expected_elems(tys[c], e.values.get(c, [])):
            # source and copy agree with each other but not with what the source file holds
            fails.append((sig("values-vs-content", source_type=tys[c]),
                          dict(bundle, channel=c, expected=proj.expected_elems(tys[c], e.values.get(c, []))[:6],
                               observed=(c_.get("data") or [])[:6])))
        if n > 0 and c_["ty"] != s_["ty"]:
            fails.append(({"kind": "defragment-tdms-type", "source_type": s_["ty"], "copy_type": c_["ty"], "min_len": n},
                          dict(bundle, channel=c, expected=s_["ty"], observed=c_["ty"])))
    for p in set(src["props"]) | set(cpy["props"]):
        if (src["props"].get(p) or {}) != (cpy["props"].get(p) or {}):
            fails.append((sig("properties"), dict(bundle, object=p, expected=src["props"].get(p),
                                                  observed=cpy["props"].get(p))))
    if scaled_chan:
        a = TdmsFile.read(io.BytesIO(e.data))
        b = TdmsFile.read(io.BytesIO(copy_bytes))
        comps = enc_components(scaled_chan)
        da = proj.elems(a[comps[0]][comps[1]][:])
        db = proj.elems(b[comps[0]][comps[1]][:])
        if da != db:
            fails.append((sig("scaled-data"), dict(bundle, channel=scaled_chan, expected=da[:6], observed=db[:6])))
    nontrivial = any(s["k"] > 0 for s in rec["file"])
    return {"n": 1 + len(lens), "keys": [h] if nontrivial else [], "fails": fails, "validated": 1}


def enc_components(path):
    from .parser import components
    return components(path)
