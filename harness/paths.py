"""C16 replay: names <-> object paths, at the ObjectPath level and end to end through writer and reader."""
import io
import os
import zlib

import numpy as np

LETTERS = ["a", "\u2126", "é", "中", "\U0001D4B3", "\u212b", "Z", "́"]     # U+2126 / U+212B are not NFC-stable


def conc(chars, rot):
    return "".join(LETTERS[rot % len(LETTERS)] if ch == "a" else ch for ch in chars)


def replay_path_batch(case):
    from nptdms.common import ObjectPath
    from nptdms import TdmsWriter, TdmsFile, ChannelObject, GroupObject
    rot = case.get("rot", 0)
    fails = []
    n = 0
    items = []
    for rec in case["recs"]:
        names = [conc(c, rot) for c in rec["comps"]]
        path = conc(rec["path"], rot)
        items.append((names, path))
        n += 1
        probs = []
        try:
            got = str(ObjectPath(*names))
            if got != path:
                probs.append("encode: %r != %r" % (got, path))
            back = ObjectPath.from_string(path)
            comps = [x for x in (back.group, back.channel) if x is not None]
            if comps != names:
                probs.append("decode: %r != %r" % (comps, names))
            if (back.is_root, back.is_group, back.is_channel) != (len(names) == 0, len(names) == 1, len(names) == 2):
                probs.append("kind flags wrong")
        except Exception as ex:  # noqa
            probs.append("%s: %s" % (type(ex).__name__, ex))
        if probs:
            fails.append(({"kind": "path", "level": "ObjectPath"}, {"names": names, "path": path, "problems": probs}))
    # end to end: all distinct channels / groups of the batch in one file; every channel holds its own index
    chans = []
    seen = set()
    for names, path in items:
        if len(names) == 2 and path not in seen:
            seen.add(path)
            chans.append((names, path))
    if chans:
        # names longer than 255 bytes (one of them in multi-byte characters)
        # ... and names that differ only in letter case or in a trailing blank (distinct names, distinct objects)
        for g_, c_ in (("G" * 256, "c" * 300), ("x", "\u00e9" * 200), ("y" * 70000, "z"),
                       ("Data", "v"), ("Summary", "s"), ("data", "V"), ("data ", "v"), ("Data", "V")):
            pth = "/'" + g_ + "'/'" + c_ + "'"
            if pth not in seen:
                seen.add(pth)
                chans.append(([g_, c_], pth))
        buf = io.BytesIO()
        groups_only = [(names, path) for names, path in items if len(names) == 1]
        try:
            with TdmsWriter(buf) as w:
                w.write_segment([GroupObject(nm[0], {"id": "g%d" % i}) for i, (nm, _) in enumerate(groups_only)
                                 if nm[0] not in {c[0][0] for c in chans}][:20] +
                                [ChannelObject(nm[0], nm[1], np.array([i, i + 1], dtype=np.int32), {"id": "c%d" % i})
                                 for i, (nm, _) in enumerate(chans)])
            _check_file(TdmsFile.read(io.BytesIO(buf.getvalue())), chans, "end-to-end", fails)
            n += len(chans)
            # the same file with channel data kept in memory-mapped temporary files (names must stay names)
            import tempfile
            import shutil
            from .common import ROOT
            mm = tempfile.mkdtemp(prefix="c16-", dir=os.path.join(ROOT, ".work"))
            try:
                _check_file(TdmsFile.read(io.BytesIO(buf.getvalue()), memmap_dir=mm), chans, "end-to-end-memmap", fails)
                with TdmsFile.open(io.BytesIO(buf.getvalue()), memmap_dir=mm) as fo:
                    _check_file(fo, chans[:10], "end-to-end-memmap-lazy", fails, count=False)
            finally:
                shutil.rmtree(mm, ignore_errors=True)
            n += len(chans)
            # a streaming producer: ONE GroupObject and ONE ChannelObject, renamed and refilled for every segment
            sub = chans[:10]
            buf2 = io.BytesIO()
            gt = ct = None
            with TdmsWriter(buf2) as w:
                for i, (nm, _) in enumerate(sub):
                    data = np.array([i, i + 1], dtype=np.int32)
                    if ct is None:
                        gt = GroupObject(nm[0], {"seen": i})
                        ct = ChannelObject(nm[0], nm[1], data, {"id": "c%d" % i})
                    else:
                        gt.group, gt.properties = nm[0], {"seen": i}
                        ct.group, ct.channel, ct.data, ct.properties = nm[0], nm[1], data, {"id": "c%d" % i}
                    w.write_segment([gt, ct])
            _check_file(TdmsFile.read(io.BytesIO(buf2.getvalue())), sub, "end-to-end-reused-objects", fails,
                        group_order="first")
            # a producer that passes channels only, one per segment: the writer declares each group when it first meets
            # it - also a group whose name differs from an earlier one only in letter case or by a trailing blank
            tail = chans[-12:]
            buf3 = io.BytesIO()
            with TdmsWriter(buf3) as w:
                for i, (nm, _) in enumerate(tail):
                    # objects built without properties and filled in afterwards (each object has its own properties);
                    # every other call hands the objects over as a one-shot iterator instead of a list
                    co = ChannelObject(nm[0], nm[1], np.array([i, i + 1], dtype=np.int32))
                    if co.properties is None:
                        co.properties = {}
                    co.properties["id"] = "c%d" % i
                    co.properties["only%d" % i] = i
                    w.write_segment(iter([co]) if i % 2 else [co])
            f3 = TdmsFile.read(io.BytesIO(buf3.getvalue()))
            for i, (nm, _) in enumerate(tail):
                try:
                    have = set(f3[nm[0]][nm[1]].properties)
                except Exception as ex:  # noqa
                    have = {"%s: %s" % (type(ex).__name__, ex)}
                if have != {"id", "only%d" % i}:
                    fails.append(({"kind": "path", "level": "properties-of-another-object"},
                                  {"names": [x[:40] for x in nm], "expected": ["id", "only%d" % i], "observed": sorted(have)[:8]}))
            _check_file(TdmsFile.read(io.BytesIO(buf3.getvalue())), tail, "end-to-end-channels-only-stream", fails,
                        group_order="first")
            from . import parser as _parser
            declared = set()
            for ev in _parser.parse(buf3.getvalue()):
                for ob in ev.get("objs", []):
                    if ob["parent"] not in ("", "/") and ob["parent"] not in declared and \
                            not any(o2["path"] == ob["parent"] for o2 in ev["objs"]):
                        fails.append(({"kind": "path", "level": "group-object-never-written"},
                                      {"channel": ob["path"][:80], "group": ob["parent"][:80]}))
                    declared.add(ob["path"])
            n += len(tail)
            n += len(sub)
        except Exception as ex:  # noqa
            fails.append(({"kind": "path", "level": "end-to-end-file", "exception": type(ex).__name__},
                          {"exception": "%s: %s" % (type(ex).__name__, ex), "names": [c[0] for c in chans][:5]}))
    keys = [zlib.crc32(p.encode("utf-8", "surrogatepass")) for _, p in items if p != "/"]
    return {"n": n, "keys": keys, "fails": fails, "validated": len(items)}


def _check_file(f, chans, level, fails, count=True, group_order="sorted"):
    for i, (nm, path) in enumerate(chans):
        probs = []
        try:
            ch = f[nm[0]][nm[1]]
            if ch.name != nm[1] or ch.group_name != nm[0] or ch.path != path:
                probs.append("reported (%r, %r, %r)" % (ch.group_name, ch.name, ch.path))
            if list(ch[:]) != [i, i + 1] or ch.properties.get("id") != "c%d" % i:
                probs.append("aliased: data %r id %r" % (list(ch[:]), ch.properties.get("id")))
            if f[nm[0]].name != nm[0]:
                probs.append("group name %r" % f[nm[0]].name)
        except Exception as ex:  # noqa
            probs.append("%s: %s" % (type(ex).__name__, ex))
        if probs:
            fails.append(({"kind": "path", "level": level}, {"names": nm, "path": path, "problems": probs}))
    # groups come in the order in which the file first names them: a writer call that has to add the group objects
    # itself adds them in sorted order; the streaming producer declares each group when it first uses it
    if count:
        want_groups = []
        for nm, _ in chans:
            if nm[0] not in want_groups:
                want_groups.append(nm[0])
        if group_order == "sorted":
            want_groups = sorted(want_groups)
        got_groups = [g.name for g in f.groups() if g.name in set(want_groups)]
        if got_groups != want_groups:
            fails.append(({"kind": "path", "level": level + "-group-order"},
                          {"expected": [x[:40] for x in want_groups][:12], "observed": [x[:40] for x in got_groups][:12]}))
    total = sum(len(g.channels()) for g in f.groups())
    if count and total != len(chans):
        fails.append(({"kind": "path", "level": level + "-count"}, {"expected_channels": len(chans), "observed": total}))
    if count and len({nm[0] for nm, _ in chans}) > len(f.groups()):
        fails.append(({"kind": "path", "level": level + "-groups"}, {"observed_groups": len(f.groups())}))


POOL = ["'", "/", " ", "a", "b", "\ufeff", "\n", "é", "e\u0301", "\u2126", "\uf900", "中", "\U0001F600", "́", "\\", "\"", "\t", ".", "''", "/'", "ß"]


def random_name_traces(seed, ntraces, per_trace):
    """traces recorded from the real code for Trace_Path.tla"""
    import random
    from nptdms.common import ObjectPath
    r = random.Random(seed)
    traces = []
    for t in range(ntraces):
        recs = []
        for _ in range(per_trace):
            k = r.choice([0, 1, 2, 2, 2])
            names = ["".join(r.choice(POOL) for _ in range(r.randrange(0, 7))) for _ in range(k)]
            try:
                path = str(ObjectPath(*names))
            except Exception as ex:  # noqa  (logged on the error path too)
                path = "<%s>" % type(ex).__name__
            try:
                back = ObjectPath.from_string(path)
                decoded = [x for x in (back.group, back.channel) if x is not None]
            except Exception as ex:  # noqa
                decoded = ["<%s>" % type(ex).__name__]
            recs.append({"comps": [list(nm) for nm in names], "path": list(path), "decoded": [list(x) for x in decoded]})
        traces.append({"id": t + 1, "recs": recs})
    return traces
