"""Running one GEN configuration: TLC enumerates, every printed state is replayed into the real library."""
import json
import zlib

from . import tlc
from .common import Replayer, absorb, Machinery


def run_config(chk, module, cfg, overrides, make_case, worker_module, worker_fn, sample_every=997,
               sample_fn=None, simulate=None, depth=None, expect_all_states=True, label=None, workers=16,
               timeout=4 * 3600, flush_cases=None):
    if getattr(chk, "hung", False):
        # a library call that never returned has already decided this run (VIOLATED); every further configuration would
        # only wait for the same alarm again
        chk.observe("configurations_not_run_after_a_hang", 1)
        return None
    rp = Replayer(worker_module, worker_fn)
    ov = dict(overrides or {})
    ov["GenPrint"] = "TRUE"
    cnt = [0]

    def on_gen(rec):
        cnt[0] += 1
        if cnt[0] % sample_every == 1:
            chk.sample(sample_fn(rec) if sample_fn else rec)
        # the number handed to make_case selects variants (rotation, widening, ...): it is derived from the state itself,
        # not from the order in which TLC's workers happened to print it, so that a run is reproducible
        case = make_case(rec, zlib.crc32(json.dumps(rec, sort_keys=True).encode()) >> 3)
        if case is not None:
            rp.add(case)

    try:
        res = tlc.run(module, cfg, name=chk.prop + "-" + module, overrides=ov, on_gen=on_gen, simulate=simulate,
                      depth=depth, seed=(chk.seed if simulate else None), workers=workers, timeout=timeout)
    except BaseException:
        rp.pool.terminate()
        raise
    if flush_cases:
        for case in flush_cases():
            rp.add(case)
    results = rp.finish()
    chk.add_tlc(label or ("%s %s" % (cfg, json.dumps(overrides or {}, sort_keys=True))), res,
                exhaustive=(simulate is None))
    if res.violated:
        chk.model_violation(cfg, res)
    if expect_all_states and simulate is None and not res.violated and res.gen != res.distinct:
        raise Machinery("GEN cases (%d) != distinct states (%d) for %s" % (res.gen, res.distinct, cfg))
    absorb(chk, results)
    return res
