"""Running TLC and getting things out of it (DESIGN.md section 2)."""
import json
import os
import re
import shutil
import subprocess
import time

SPEC_DIR = os.path.join(os.path.dirname(os.path.dirname(os.path.abspath(__file__))), "spec")
WORK_ROOT = os.path.join(os.path.dirname(os.path.dirname(os.path.abspath(__file__))), ".work")
TLA_CP = "/opt/veriftools/tla/tla2tools.jar:/opt/veriftools/tla/CommunityModules-deps.jar"

GEN_RE = re.compile(r'<<"GEN", "((?:[^"\\]|\\.)*)">>')
ACCEPT_RE = re.compile(r'<<"(ACCEPT|REJECT)", ([^>]*)>>')


class TlcFailure(Exception):
    """machinery failure (exit 2), never a property verdict"""


def workdir(name):
    d = os.path.join(WORK_ROOT, "%s-%d" % (name, os.getpid()))
    if os.path.exists(d):
        shutil.rmtree(d)
    os.makedirs(d)
    return d


def cleanup(d):
    shutil.rmtree(d, ignore_errors=True)


def prepare(name, cfg, overrides=None):
    """Copy the specification into a scratch directory; apply `Name = value` overrides to the cfg."""
    d = workdir(name)
    for f in os.listdir(SPEC_DIR):
        if f.endswith(".tla"):
            shutil.copy(os.path.join(SPEC_DIR, f), d)
    text = open(os.path.join(SPEC_DIR, cfg)).read()
    for k, v in (overrides or {}).items():
        pat = re.compile(r"^(\s*)%s\s*(=|<-)\s*\S.*$" % re.escape(k), re.M)
        if not pat.search(text):
            raise TlcFailure("cfg %s has no constant %s" % (cfg, k))
        sv = str(v)
        op = "=" if re.match(r'^(\{|-?\d|"|TRUE$|FALSE$)', sv) else "<-"
        text = pat.sub(lambda m: "%s%s %s %s" % (m.group(1), k, op, sv), text)
    with open(os.path.join(d, cfg), "w") as fh:
        fh.write(text)
    return d


def unescape(tla_string_body):
    """body of a TLA+ string literal as printed by TLC -> python str"""
    return json.loads('"' + tla_string_body + '"')


class Result(object):
    def __init__(self):
        self.generated = 0
        self.distinct = 0
        self.depth = 0
        self.gen = 0
        self.violated = None      # name of a violated invariant / property
        self.error_text = ""
        self.wall = 0.0
        self.coverage = {}
        self.output_tail = []
        self.returncode = None


def run(module, cfg, name=None, overrides=None, workers=16, on_gen=None, on_line=None, simulate=None, depth=None,
        seed=None, timeout=1500, coverage=False, env=None, heap=None, keep=False, dfid=None, postprocess_dir=None):
    """Run TLC on spec/<module>.tla with spec/<cfg>.  on_gen(record) is called for every GEN line."""
    d = prepare(name or module, cfg, overrides)
    cmd = ["java", "-XX:+UseParallelGC", "-Xss256m"]       # deep recursive operators (long shapes) need stack
    if heap:
        cmd.append("-Xmx%s" % heap)
    cmd += ["-cp", TLA_CP, "tlc2.TLC", "-workers", str(workers), "-metadir", os.path.join(d, "meta"),
            "-noGenerateSpecTE", "-config", cfg]
    if simulate is not None:
        # `num' is per worker in this TLC build
        cmd += ["-simulate", "num=%d" % max(1, -(-simulate // workers))]
        if depth:
            cmd += ["-depth", str(depth)]
        if seed is not None:
            cmd += ["-seed", str(seed)]
    elif dfid is not None:
        cmd += ["-dfid", str(dfid)]
    if coverage:
        cmd += ["-coverage", "1"]
    cmd.append(module + ".tla")
    e = dict(os.environ)
    if env:
        e.update(env)
    res = Result()
    t0 = time.time()
    p = subprocess.Popen(cmd, cwd=d, stdout=subprocess.PIPE, stderr=subprocess.STDOUT, env=e, text=True,
                         errors="replace", bufsize=1 << 20)
    tail = []
    err_lines = []
    in_error = False
    try:
        for line in p.stdout:
            if time.time() - t0 > timeout:
                p.kill()
                raise TlcFailure("TLC timeout after %ds: %s %s" % (timeout, module, cfg))
            if line.startswith('<<"GEN"'):
                found = False
                for m in GEN_RE.finditer(line):
                    found = True
                    res.gen += 1
                    if on_gen:
                        on_gen(json.loads(unescape(m.group(1))))
                if not found:
                    raise TlcFailure("unparsable GEN line: %r" % line[:200])
                continue
            if on_line and on_line(line):
                continue
            if "StackOverflowError" in line or "OutOfMemoryError" in line:
                p.kill()
                raise TlcFailure("TLC died (%s) on %s/%s" % (line.strip()[:80], module, cfg))
            tail.append(line.rstrip("\n"))
            if len(tail) > 60:
                tail.pop(0)
            m = re.search(r"(\d+) states generated, (\d+) distinct states found", line)
            if m:
                res.generated, res.distinct = int(m.group(1)), int(m.group(2))
            m = re.search(r"The depth of the complete state graph search is (\d+)", line)
            if m:
                res.depth = int(m.group(1))
            m = re.search(r"Invariant (\S+) is violated", line)
            if m:
                res.violated = m.group(1)
            m = re.search(r"(?:Action|Temporal) propert(?:y|ies) (\S+)?.*violated", line)
            if m and not res.violated:
                res.violated = m.group(1) or "property"
            if line.startswith("Error:"):
                in_error = True
            if in_error and len(err_lines) < 80:
                err_lines.append(line.rstrip("\n"))
            if coverage:
                m = re.match(r"<(\w+) line \d+, col \d+ to line \d+, col \d+ of module (\w+)>: (\d+):(\d+)", line)
                if m:
                    res.coverage[m.group(1)] = {"distinct": int(m.group(3)), "taken": int(m.group(4))}
        p.wait()
    finally:
        if p.poll() is None:
            p.kill()
        if not keep:
            cleanup(d)
    res.returncode = p.returncode
    res.wall = time.time() - t0
    res.error_text = "\n".join(err_lines)
    res.output_tail = tail
    if res.violated is None and p.returncode not in (0,):
        # 12 = safety violation, 13 = liveness; anything else without a recognised violation is machinery
        if "Error:" in "\n".join(tail) or p.returncode != 0:
            if not err_lines or "violated" not in res.error_text:
                raise TlcFailure("TLC failed (rc=%s) on %s/%s:\n%s\n...\n%s" % (
                    p.returncode, module, cfg, "\n".join(err_lines[:30]), "\n".join(tail[-8:])))
    return res


def sany(module_path):
    r = subprocess.run(["java", "-cp", TLA_CP, "tla2sany.SANY", module_path], capture_output=True, text=True,
                       cwd=os.path.dirname(module_path))
    ok = r.returncode == 0 and "error" not in r.stdout.lower().replace("0 error", "")
    return ok, r.stdout + r.stderr
