"""C12: conversions recorded from the real code (traces for Trace_Time.tla)."""
import io
import struct

import numpy as np

BIAS_S = 1 << 40
EPOCH_DIFF = 2082844800          # seconds from 1904-01-01 to 1970-01-01
UNITS = {"s": 1, "ms": 10 ** 3, "us": 10 ** 6, "ns": 10 ** 9}


def limbs(n):
    if n < 0:
        return [9999] * 12        # an impossible value: makes every equation fail
    out = []
    while n:
        out.append(n % 10000)
        n //= 10000
    return out


def roundtrip_records(us_values, secs_1904):
    """datetime64[us] -> TimeStamp bytes -> read back, for each sub-second microsecond value and second"""
    from nptdms import types
    from nptdms.timestamp import TimestampArray
    recs = []
    for sec in secs_1904:
        total = [sec * 10 ** 6 + u for u in us_values]
        dts = np.array(total, dtype="int64") - EPOCH_DIFF * 10 ** 6
        raw = bytearray()
        pairs = []
        for t in dts:
            b = types.TimeStamp(np.datetime64(int(t), "us")).bytes
            f, s = struct.unpack("<Qq", b)
            pairs.append((s, f))
            raw += b
        try:
            arr = types.TimeStamp.from_bytes(np.frombuffer(bytearray(raw), dtype=np.uint8), "<")
            back_arr = arr.as_datetime64("us").astype("int64") + EPOCH_DIFF * 10 ** 6
        except Exception:  # noqa  (logged: every record of this block then fails validation)
            back_arr = np.full(len(pairs), -(10 ** 15), dtype="int64")
        for i, (s, f) in enumerate(pairs):
            try:
                scalar_back = types.TimeStamp.read(io.BytesIO(bytes(raw[16 * i:16 * i + 16]))).as_datetime64("us")
                sb = int(scalar_back.astype("int64")) + EPOCH_DIFF * 10 ** 6
            except Exception:  # noqa
                sb = -(10 ** 15)
            ab = int(back_arr[i])
            usb = total[i] + BIAS_S * 10 ** 6
            secb = s + BIAS_S
            recs.append({"kind": "roundtrip", "us": limbs(usb), "sec": limbs(secb), "frac": limbs(f),
                         "sub": limbs(usb - secb * 10 ** 6),
                         "back": limbs((sb if sb == ab else -1) + BIAS_S * 10 ** 6) if sb == ab else limbs(-1),
                         "dbg": [sec, us_values[i]]})
    return recs


def writer_channel_records(us_values, secs_1904):
    """datetime64[us] channel data through TdmsWriter -> bytes in the file -> TdmsFile.read (end to end)"""
    from nptdms import TdmsWriter, TdmsFile, ChannelObject
    from . import parser as _p
    recs = []
    total = [sec * 10 ** 6 + u for sec in secs_1904 for u in us_values]
    dts = (np.array(total, dtype="int64") - EPOCH_DIFF * 10 ** 6).astype("datetime64[us]")
    buf = io.BytesIO()
    try:
        with TdmsWriter(buf) as w:
            w.write_segment([ChannelObject("g", "t", dts)])
        data = buf.getvalue()
        ev = _p.parse(data)[0]
        raw = data[ev["raw_start"]:ev["raw_start"] + 16 * len(total)]
        back = TdmsFile.read(io.BytesIO(data))["g"]["t"][:].astype("int64") + EPOCH_DIFF * 10 ** 6
    except Exception:  # noqa
        raw = b"\0" * (16 * len(total))
        back = np.full(len(total), -(10 ** 15), dtype="int64")
    for i, t in enumerate(total):
        f, s = struct.unpack("<Qq", raw[16 * i:16 * i + 16])
        usb = t + BIAS_S * 10 ** 6
        secb = s + BIAS_S
        recs.append({"kind": "roundtrip", "us": limbs(usb), "sec": limbs(secb), "frac": limbs(f),
                     "sub": limbs(usb - secb * 10 ** 6), "back": limbs(int(back[i]) + BIAS_S * 10 ** 6),
                     "dbg": ["writer-channel", t]})
    return recs


def boundary_fractions(S, ks):
    out = set([0, (1 << 64) - 1, 1 << 63, (1 << 63) - 1, 1, (1 << 64) - 2])
    for k in ks:
        f0 = -(-(k << 64) // S)         # ceil(k * 2^64 / S): first fraction inside unit k
        for d in (-2, -1, 0, 1, 2):
            if 0 <= f0 + d < (1 << 64):
                out.add(f0 + d)
    return sorted(out)


def convert_records(res, secs_1904, fracs):
    from nptdms.timestamp import TdmsTimestamp, TimestampArray
    S = UNITS[res]
    pairs = sorted((s, f) for s in secs_1904 for f in fracs)
    a = np.array([(f, s) for (s, f) in pairs], dtype=[("second_fractions", "<u8"), ("seconds", "<i8")])
    ta = TimestampArray(a)
    try:
        arr = ta.as_datetime64(res).astype("int64")
        arr2 = ta.as_datetime64(res).astype("int64")          # converting must not change the raw array
        if not (arr == arr2).all() or not (np.asarray(ta["seconds"]) == np.array([s for s, _ in pairs])).all() \
                or not (np.asarray(ta["second_fractions"]) == np.array([f for _, f in pairs], dtype="u8")).all():
            arr = np.full(len(pairs), -(10 ** 17), dtype="int64")
    except Exception:  # noqa
        arr = np.full(len(pairs), -(10 ** 17), dtype="int64")
    recs = []
    for i, (s, f) in enumerate(pairs):
        try:
            sc = TdmsTimestamp(s, f).as_datetime64(res)
            scalar = int(sc.astype("int64")) + EPOCH_DIFF * S
        except Exception:  # noqa
            scalar = -(10 ** 17)
        array = int(arr[i]) + EPOCH_DIFF * S
        secb = s + BIAS_S
        floor_b = secb * S + ((f * S) >> 64)
        recs.append({"kind": "convert", "S": limbs(S), "sec": limbs(secb), "frac": limbs(f),
                     "floor": limbs(floor_b), "sub": limbs((f * S) >> 64),
                     "scalar": limbs(scalar + BIAS_S * S), "array": limbs(array + BIAS_S * S), "dbg": [res, s, f]})
    return recs


def file_convert_records(seed, mode="read"):
    """(seconds, fractions) stored in a file as property and as channel value, read back with the default
    raw_timestamps=False: what the file hands out (datetime64[us]) against the exact time - the same judgement as
    `convert', with the file's property value in the place of the scalar and the channel value in the place of the array"""
    import random
    from nptdms import TdmsWriter, TdmsFile, ChannelObject, RootObject
    from nptdms.timestamp import TdmsTimestamp, TimestampArray
    r = random.Random(seed + 5)
    S = UNITS["us"]
    pairs = sorted(set([(0, 0), (0, 1), (0, (1 << 64) - 1), (-1, (1 << 64) - 1), (1, 0), (3 * 10 ** 9, 1 << 63),
                        (-3 * 10 ** 9, 12345), (86400, 0)] +
                       [(r.randrange(-(1 << 31), 1 << 32), r.getrandbits(64)) for _ in range(40)]))
    a = np.array([(f, s) for (s, f) in pairs], dtype=[("second_fractions", "<u8"), ("seconds", "<i8")])
    buf = io.BytesIO()
    with TdmsWriter(buf) as w:
        w.write_segment([RootObject({"t%d" % i: TdmsTimestamp(s, f) for i, (s, f) in enumerate(pairs)}),
                         ChannelObject("g", "c", TimestampArray(a))])
    recs = []
    for mode in (mode,):
        f = (TdmsFile.read if mode == "read" else TdmsFile.open)(io.BytesIO(buf.getvalue()))
        data = f["g"]["c"][:]
        for i, (s, fr) in enumerate(pairs):
            def us_of(v):
                try:
                    v = np.datetime64(v, "us")
                    if np.isnat(v):
                        return -(10 ** 17)
                    return int(v.astype("int64")) + EPOCH_DIFF * S
                except Exception:  # noqa
                    return -(10 ** 17)
            scalar, array = us_of(f.properties["t%d" % i]), us_of(data[i])
            secb = s + BIAS_S
            floor_b = secb * S + ((fr * S) >> 64)
            recs.append({"kind": "convert", "S": limbs(S), "sec": limbs(secb), "frac": limbs(fr),
                         "floor": limbs(floor_b), "sub": limbs((fr * S) >> 64),
                         "scalar": limbs(scalar + BIAS_S * S), "array": limbs(array + BIAS_S * S),
                         "dbg": ["file-" + mode, s, fr]})
        if mode == "open":
            f.close()
    return recs


def raw_records(seed):
    """raw timestamps through write -> read -> defragment -> read"""
    import random
    from nptdms import TdmsWriter, TdmsFile, ChannelObject, RootObject
    from nptdms.timestamp import TdmsTimestamp, TimestampArray
    r = random.Random(seed)
    pairs = [(0, 0), (-1, (1 << 64) - 1), (3600, 1 << 63), (-(1 << 33), 1), ((1 << 33), (1 << 64) - 2)] + \
            [(r.randrange(-(1 << 34), 1 << 34), r.getrandbits(64)) for _ in range(20)]
    a = np.array([(f, s) for (s, f) in pairs], dtype=[("second_fractions", "<u8"), ("seconds", "<i8")])
    buf = io.BytesIO()
    # the channel is written in three segments (so that it is read in several chunks, and defragment has work to do)
    cuts = [0, 8, 17, len(pairs)]
    with TdmsWriter(buf) as w:
        for j in range(3):
            objs = [ChannelObject("g", "c", TimestampArray(a[cuts[j]:cuts[j + 1]]))]
            if j == 0:
                objs.insert(0, RootObject({"t%d" % i: TdmsTimestamp(s, f) for i, (s, f) in enumerate(pairs)}))
            w.write_segment(objs)
    f1 = TdmsFile.read(io.BytesIO(buf.getvalue()), raw_timestamps=True)
    out = io.BytesIO()
    TdmsWriter.defragment(io.BytesIO(buf.getvalue()), out)
    f2 = TdmsFile.read(io.BytesIO(out.getvalue()), raw_timestamps=True)
    recs = []
    stages = [("write-read", f1, f1["g"]["c"][:]), ("defragment", f2, f2["g"]["c"][:])]
    with TdmsFile.open(io.BytesIO(buf.getvalue()), raw_timestamps=True) as f3:
        ch = f3["g"]["c"]
        stages.append(("write-open-slice", f3, ch[:]))
        stages.append(("write-open-read_data", f3, np.concatenate([ch.read_data(0, 5), ch.read_data(5, len(pairs))])))
        stages.append(("write-open-chunks", f3, np.concatenate([c[:] for c in ch.data_chunks()])))
    with TdmsFile.open(io.BytesIO(out.getvalue()), raw_timestamps=True) as f4:
        stages.append(("defragment-open-slice", f4, f4["g"]["c"][:]))
    arr1 = f1["g"]["c"][:]
    stages.append(("write-read-numpy-index", f1, [arr1[np.int64(i)] for i in range(len(pairs))]))
    with TdmsFile.open(io.BytesIO(buf.getvalue()), raw_timestamps=True) as f5:
        ch = f5["g"]["c"]
        picked = [ch[i] for i in range(len(pairs))]              # one by one: later segments are reached through NumPy integers
        stages.append(("write-open-index", f5, picked))
        stages.append(("write-open-index-negative", f5, [ch[i - len(pairs)] for i in range(len(pairs))]))
    for stage, f, data in stages:
        if len(data) != len(pairs):
            raise AssertionError("raw timestamp channel of %d values read back with %d (%s)" % (len(pairs), len(data), stage))
        for i, (s, fr) in enumerate(pairs):
            for src, t in (("channel", data[i]), ("property", f.properties["t%d" % i])):
                recs.append({"kind": "raw", "sec": limbs(s + BIAS_S), "frac": limbs(fr),
                             "sec_back": limbs(int(t.seconds if hasattr(t, "seconds") else t["seconds"]) + BIAS_S),
                             "frac_back": limbs(int(t.second_fractions if hasattr(t, "second_fractions")
                                                    else t["second_fractions"])),
                             "scalar": bool(isinstance(t, TdmsTimestamp) or "index" not in stage),
                             "dbg": [stage, src, s, fr]})
    return recs


def be_file_raw_records(seed):
    """raw timestamps of big-endian segments (which TdmsWriter cannot write): files laid out by the independent encoder,
    contiguous and interleaved, two chunks, read eagerly and lazily"""
    import struct
    from nptdms import TdmsFile
    from . import enc
    T, X = "/'g'/'t'", "/'g'/'x'"
    recs = []
    for il in (False, True):
        objs = [{"p": T, "has": True, "n": 3, "ty": "TimeStamp"}, {"p": X, "has": True, "n": 3, "ty": "Int16"}]
        seg = {"meta": True, "newlist": True, "be": True, "il": il, "k": 2,
               "listed": [{"p": o["p"], "kind": "full"} for o in objs], "objs": objs}
        e = enc.encode({"segs": [seg, dict(seg, be=False)]}, seed)
        pairs = [struct.unpack("<Qq", v)[::-1] for v in e.values[T]]        # (seconds, fractions)
        stages = []
        f1 = TdmsFile.read(io.BytesIO(e.data), raw_timestamps=True)
        stages.append(("be-file-read", f1["g"]["t"][:]))
        with TdmsFile.open(io.BytesIO(e.data), raw_timestamps=True) as f2:
            ch = f2["g"]["t"]
            stages.append(("be-file-open-slice", ch[:]))
            stages.append(("be-file-open-chunks", np.concatenate([c[:] for c in ch.data_chunks()])))
            stages.append(("be-file-open-index", [ch[i] for i in range(len(pairs))]))
        for stage, data in stages:
            if len(data) != len(pairs):
                raise AssertionError("%d timestamps read back as %d (%s)" % (len(pairs), len(data), stage))
            for i, (sec, fr) in enumerate(pairs):
                t = data[i]
                recs.append({"kind": "raw", "sec": limbs(sec + BIAS_S), "frac": limbs(fr),
                             "sec_back": limbs(int(t.seconds if hasattr(t, "seconds") else t["seconds"]) + BIAS_S),
                             "frac_back": limbs(int(t.second_fractions if hasattr(t, "second_fractions")
                                                    else t["second_fractions"])),
                             "scalar": bool(isinstance(t, TdmsTimestamp_()) or "index" not in stage),
                             "dbg": [stage + ("-il" if il else ""), "channel", sec, fr]})
    return recs


def TdmsTimestamp_():
    from nptdms.timestamp import TdmsTimestamp
    return TdmsTimestamp


def track_records(seed):
    """time_track() of waveform channels with exactly representable offset / increment"""
    import random
    from nptdms import TdmsWriter, TdmsFile, ChannelObject
    from nptdms.timestamp import TdmsTimestamp
    r = random.Random(seed)
    recs = []
    den = 8
    for acc, U in UNITS.items():
        lim = 2 if acc == "ns" else (1500 if acc == "us" else 100000)
        for n in (0, 1, 2, 5):
            for _ in range(3):
                b = r.choice([0, 1, 3, -1, den, 2 * den]) if acc != "ns" else r.choice([0, 1, -1])
                a = r.randrange(-lim, lim + 1) if acc != "ns" else r.choice([0, 1, -2, 2])
                if abs(a + max(n - 1, 0) * b) * U >= 2 ** 31 or abs(a) * U >= 2 ** 31:
                    continue
                start = TdmsTimestamp(3 * 10 ** 9 + r.randrange(1000), r.getrandbits(64))
                for raw_ts in (False, True):
                    buf = io.BytesIO()
                    with TdmsWriter(buf) as w:
                        w.write_segment([ChannelObject("g", "c", np.arange(n, dtype=np.int16), {
                            "wf_start_offset": a / den, "wf_increment": b / den, "wf_start_time": start})])
                    ch = TdmsFile.read(io.BytesIO(buf.getvalue()), raw_timestamps=raw_ts)["g"]["c"]
                    rel = ch.time_track()
                    rel8 = [int(v * den) if float(v * den).is_integer() else -10 ** 9 for v in rel]
                    ab = ch.time_track(absolute_time=True, accuracy=acc)
                    delivered = ch.properties["wf_start_time"]
                    if isinstance(delivered, TdmsTimestamp):
                        delivered = delivered.as_datetime64(acc)
                    deltas = []
                    for v in ab:
                        d = (v - delivered)            # timedelta64 in the finer of the two units
                        cnt = d / np.timedelta64(1, acc)
                        deltas.append(int(cnt) if float(cnt).is_integer() else -10 ** 9)
                    recs.append({"kind": "track", "n": n, "a": a, "b": b, "den": den, "U": U, "rel": rel8,
                                 "abs": deltas, "dbg": [acc, raw_ts]})
    # decimal increments (not exactly representable: values are not judged) - the time axis has one point per value
    for inc in (0.1, 0.01, 0.001, 1 / 44100.0, 2.5e-7):
        for n in list(range(0, 16)) + [113, 1001]:
            buf = io.BytesIO()
            with TdmsWriter(buf) as w:
                w.write_segment([ChannelObject("g", "c", np.arange(n, dtype=np.int16), {
                    "wf_start_offset": 0.0 if n % 2 else 0.3, "wf_increment": inc,
                    "wf_start_time": TdmsTimestamp(3 * 10 ** 9, 0)})])
            ch = TdmsFile.read(io.BytesIO(buf.getvalue()))["g"]["c"]
            recs.append({"kind": "tracklen", "n": n, "nrel": len(ch.time_track()),
                         "nabs": len(ch.time_track(absolute_time=True, accuracy="us")), "dbg": [inc, n]})
    return recs
