#!/bin/bash
# selftest/eval_benign.sh <dir containing patch.diff> <check ids...>
# A behaviour-preserving change must leave every check green: apply it to a scratch copy of /repo HEAD under /var/tmp,
# run the unedited suite and the given quick checks against the copy. Development-time only.
set -u
D="$1"; shift
S=${SCRATCH_COPY:-/var/tmp/benigncopy}
rm -rf $S && mkdir -p $S && (cd /repo && git archive HEAD | tar -x -C $S)
cd $S
patch -p1 -s < "$D/patch.diff" || { echo "PATCH FAILED"; exit 3; }
echo -n "suite: "; PYTHONPATH=$S /venv/bin/python -m pytest -q -p no:cacheprovider -x nptdms/test 2>&1 | tail -1
cd /verif
for c in "$@"; do
  VERIF_REPO=$S timeout 1800 ./check $c --tier quick 2>&1 | grep -E " x |quick:|MACHINERY|KNOWN" > $S.out.txt
  grep -E "quick:|MACHINERY" $S.out.txt | cut -c1-60
  grep -E " x " $S.out.txt | head -3 | cut -c1-220
done
rm -rf $S $S.out.txt
