#!/bin/bash
# selftest/regress.sh [out file] [shard k] [of n] [all|seeded|benign]: every archived seeded change must still be reported by the quick checks
# recorded in its meta.json (caught_by_quick), every archived behaviour-preserving refactoring must leave its checks
# green.  Development-time only; scratch copies live under /var/tmp and are removed.
cd /verif
OUT=${1:-/var/tmp/regress.out}; K=${2:-0}; N=${3:-1}; ONLY=${4:-all}     # ONLY: all | seeded | benign
: > $OUT
export SCRATCH_COPY=/var/tmp/regresscopy$K
i=0
for d in seeded/*/ selftest/benign/*/; do
  case $ONLY in seeded) case $d in seeded/*) ;; *) continue;; esac;; benign) case $d in selftest/*) ;; *) continue;; esac;; esac
  i=$((i+1)); [ $((i % N)) -eq $K ] || continue
  id=$(basename $d)
  case $d in
   seeded/*)
    checks=$(python3 -c "import json;print(' '.join(json.load(open('$d/meta.json'))['caught_by_quick']))")
    res=$(selftest/eval_seeded.sh /verif/$d $checks 2>&1 | grep -E "quick:|MACHINERY|PATCH" | sort -u | sed -E 's/^(C[0-9]+) quick: ([A-Z]+).*/\1=\2/' | tr '\n' ' ')
    echo "seeded $id: $res" >> $OUT;;
   *)
    checks=$(python3 -c "import json;print(' '.join(json.load(open('$d/meta.json'))['checks_run_quick_all_held']))")
    res=$(selftest/eval_benign.sh /verif/$d $checks 2>&1 | grep -E "quick:|MACHINERY|PATCH|suite" | sed -E 's/^(C[0-9]+) quick: ([A-Z]+).*/\1=\2/' | tr '\n' ' ')
    echo "benign $id: $res" >> $OUT;;
  esac
done
echo DONE >> $OUT
