#!/bin/bash
# selftest/eval_seeded.sh <seeded dir containing patch.diff demo.py> <check ids...>
# Confirms a seeded change (demo fails with it / passes without, suite passes with it) in a scratch copy of /repo
# outside /repo and /verif, then runs the given checks against the scratch copy. Development-time only.
set -u
D="$1"; shift
S=${SCRATCH_COPY:-/var/tmp/seedcopy}
rm -rf $S && mkdir -p $S && (cd /repo && git archive HEAD | tar -x -C $S)
cd $S
# SKIP_CONFIRM=1 (or the flag file /var/tmp/skip_confirm): the change was confirmed when it was archived; only run the checks
if [ -z "${FORCE_CONFIRM:-}" ] && { [ -n "${SKIP_CONFIRM:-}" ] || [ -e /var/tmp/skip_confirm ]; }; then
  patch -p1 -s < "$D/patch.diff" || { echo "PATCH FAILED"; exit 3; }
else
echo "--- demo on unchanged copy"; PYTHONPATH=$S /venv/bin/python "$D/demo.py" >/dev/null 2>&1; echo "exit=$?"
patch -p1 -s < "$D/patch.diff" || { echo "PATCH FAILED"; exit 3; }
echo "--- demo with change"; PYTHONPATH=$S /venv/bin/python "$D/demo.py" >/dev/null 2>&1; echo "exit=$?"
echo "--- suite with change"; PYTHONPATH=$S /venv/bin/python -m pytest -q -p no:cacheprovider -x nptdms/test 2>&1 | tail -1
fi
cd /verif
for c in "$@"; do
  tier=quick; id=$c
  case $c in *:thorough) tier=thorough; id=${c%%:*};; esac
  echo "--- check $id $tier"; VERIF_REPO=$S timeout 1800 ./check $id --tier $tier 2>&1 | grep -E " x |$tier:|MACHINERY|KNOWN" > $S.out.txt; head -3 $S.out.txt | cut -c1-220; grep -E "$tier:|MACHINERY" $S.out.txt | cut -c1-220
done
rm -rf $S $S.out.txt
