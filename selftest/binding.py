"""Development-time self-test of the binding (not a registered check):
 (a) corrupt one field of a recorded trace -> the trace specification must reject it, at that step;
 (b) switch a specification to the PINNED (defective) behaviour -> TLC must produce a counterexample.
Run:  cd /verif && PYTHONPATH=/repo:/verif NPTDMS_VERIF=1 /venv/bin/python -m selftest.binding"""
import copy
import io
import sys

from harness import tlc, trace, segtrace, enc
from harness.datafile import record_footprint_case
from harness.timecheck import roundtrip_records, convert_records, boundary_fractions

ok = True


def expect(name, cond, detail=""):
    global ok
    print("%-72s %s %s" % (name, "ok" if cond else "FAILED", detail))
    ok = ok and cond


def neg_model(module, cfg, overrides, label):
    res = tlc.run(module, cfg, name="selftest-" + module, overrides=overrides, timeout=600)
    expect("model with %s exposes a counterexample" % label, res.violated is not None, str(res.violated))


def main():
    # ---- (a) corrupted traces
    files = segtrace.collect_repo_files()
    name, data = [f for f in files if f[0] == "scenario:add_new_channel"][0]
    t, _ = segtrace.trace_of_file(1, name, data)
    t["obs"] = segtrace.observe(data)
    t["impl"] = []
    good = {k: t[k] for k in ("id", "paths", "chans", "groups", "parents", "file", "obs", "impl")}
    bad = copy.deepcopy(good)
    bad["id"] = 2
    bad["obs"]["len"][0][1] += 1                       # one value more than the file holds
    bad2 = copy.deepcopy(good)
    bad2["id"] = 3
    bad2["file"][1]["listed"][0]["kind"] = "nodata"     # one index header flipped
    acc, where, _ = trace.validate("Trace_Segments", "Trace_Segments.cfg", [good, bad, bad2], "selftest-seg", workers=2)
    expect("Trace_Segments accepts the recorded trace", "1" in acc)
    expect("Trace_Segments rejects a corrupted observed length", "2" not in acc)
    expect("Trace_Segments rejects a flipped index header", "3" not in acc)

    shape = {"il": False, "segs": [{"pres": True, "n": 2, "k": 3, "last": 2}, {"pres": True, "n": 1, "k": 2, "last": 1}]}
    cases = [{"req": {"kind": "window", "off": o, "len": l}} for o in range(0, 4) for l in (1, 2)] + \
            [{"req": {"kind": "index", "i": i}} for i in range(0, 8)]
    r = record_footprint_case({"rec": {"shape": shape, "len": 8, "cases": cases}, "seed": 0, "variant": 1, "id": 1})
    tr = {k: r["trace"][k] for k in ("id", "il", "segs", "lay", "steps")}
    bad = copy.deepcopy(tr)
    bad["id"] = 2
    st = [s for s in bad["steps"] if s["reads"] and s["kind"] == "window"][2]
    st["reads"].append([bad["lay"][1]["dataPos"], 1])     # one extra byte fetched from another segment
    bad2 = copy.deepcopy(tr)
    bad2["id"] = 3
    st2 = [s for s in bad2["steps"] if s["kind"] == "index" and not s["reads"]]
    if st2:
        st2[0]["reads"] = [[bad2["lay"][0]["dataPos"], 4]]  # a cached index that fetched after all
    acc, where, _ = trace.validate("Trace_Footprint", "Trace_Footprint.cfg", [tr, bad, bad2], "selftest-foot", workers=2)
    expect("Trace_Footprint accepts the recorded trace", "1" in acc)
    expect("Trace_Footprint rejects one extra byte outside the request", "2" not in acc, "step %s" % where.get("2"))
    expect("Trace_Footprint rejects a fetch on a cache hit", (not st2) or "3" not in acc)

    recs = roundtrip_records([4146, 5, 999999], [3 * 10 ** 9])
    good = {"id": 1, "recs": [{k: v for k, v in x.items() if k != "dbg"} for x in recs]}
    bad = copy.deepcopy(good)
    bad["id"] = 2
    bad["recs"][1]["frac"] = list(bad["recs"][0]["frac"])      # the fraction of another microsecond
    acc, where, _ = trace.validate("Trace_Time", "Trace_Time.cfg", [good, bad], "selftest-time", workers=2)
    expect("Trace_Time accepts recorded round trips", "1" in acc)
    expect("Trace_Time rejects a fraction that denotes another microsecond", "2" not in acc, "record %s" % where.get("2"))

    # ---- (b) pinned behaviour switched on in the models
    neg_model("MC_C04", "MC_C04.cfg", {"StaleIndex": "TRUE", "MaxSegs": 3, "NVals": "c_NValsQ", "KVals": "c_KValsQ",
                                        "MaxSliceLen": 0, "Extra": 1}, "StaleIndex (D3)")
    neg_model("MC_C04", "MC_C04.cfg", {"ZeroLenSlice": "TRUE", "MaxSegs": 1}, "ZeroLenSlice (D10)")
    neg_model("MC_C04", "MC_C04.cfg", {"ExactFinalChunk": "FALSE", "MaxSegs": 1}, "guessed final chunk size (D16)")
    neg_model("MC_C05", "MC_C05.cfg", {"SharedCursorBug": "TRUE"}, "SharedCursorBug (D4)")
    print("SELFTEST", "PASSED" if ok else "FAILED")
    return 0 if ok else 1


if __name__ == "__main__":
    sys.exit(main())
