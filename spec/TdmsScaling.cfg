SPECIFICATION Spec
CONSTANTS
  RawTypes = {"int16", "uint8", "float32"}
  MaxScales = 2
  UnaryKinds = {"Linear", "Polynomial", "Table", "NoOp"}
  BinaryKinds = {"Add", "Subtract"}
  Levels = {"channel", "group", "root"}
  Shadow = {FALSE}
  DaqTypes = {}
  MaxDaqScales = 0
  LongChains = {}
  GenPrint = FALSE
INVARIANT Elementwise
INVARIANT DTypeTotal
INVARIANT GenCase
CHECK_DEADLOCK FALSE
