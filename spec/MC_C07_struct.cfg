SPECIFICATION Spec
CONSTANTS
  Root <- R
  GroupsW <- c_Groups
  ChansW <- c_Chans
  GroupOfW <- c_GroupOf
  GroupRank <- c_GroupRank
  ObjSeqs <- c_SeqsStructOK
  ArrayClasses <- c_ClsStruct
  Lens = {0, 2}
  ValueClasses = {"int_small"}
  PropNamesW = {}
  MaxPropObjsW = 0
  MaxCalls = 2
  MaxSessions = 2
  MaxRefused = 0
  GenPrint = FALSE
INVARIANT RoundTrip
INVARIANT ParentsFirst
INVARIANT GenCase
CHECK_DEADLOCK FALSE
