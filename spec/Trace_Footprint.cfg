SPECIFICATION TSpec
CONSTANTS
  StaleIndex = FALSE
  ExactFinalChunk = TRUE
  ZeroLenSlice = FALSE
  Verbose = FALSE
INVARIANT Accepted
INVARIANT Refined
INVARIANT Progress
CHECK_DEADLOCK FALSE
