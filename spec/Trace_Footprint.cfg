SPECIFICATION TSpec
CONSTANTS
  StaleIndex = FALSE
  ExactFinalChunk = TRUE
  ZeroLenSlice = FALSE
  Verbose = FALSE
INVARIANT Accepted
INVARIANT Progress
CHECK_DEADLOCK FALSE
