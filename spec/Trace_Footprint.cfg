SPECIFICATION TSpec
CONSTANTS
  MaxSegs = 1
  NVals = {1}
  KVals = {1}
  Trunc = FALSE
  Extra = 0
  Steps = {1}
  MaxSliceLen = 0
  StaleIndex = FALSE
  ExactFinalChunk = TRUE
  ZeroLenSlice = FALSE
  GenPrint = FALSE
  Verbose = FALSE
INVARIANT Accepted
INVARIANT Progress
CHECK_DEADLOCK FALSE
