SPECIFICATION Spec
CONSTANTS
  Alphabet = {"'", "/", " ", "a"}
  MaxLen = 2
  GenPrint = FALSE
INVARIANT RoundTrip
INVARIANT FunctionalAgrees
INVARIANT GenCase
CHECK_DEADLOCK FALSE
