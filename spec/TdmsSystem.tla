------------------------------ MODULE TdmsSystem ------------------------------
(***************************************************************************)
(* Composition (DESIGN.md 3.13): one file in a directory through its life: *)
(* writer sessions append segments (TdmsWriter), a crash cuts the file     *)
(* short, readers open it - eagerly or lazily, with or without the index   *)
(* file the writer produced - read windows, lengths and chunk streams, and *)
(* close; defragment replaces the file by its tidy copy (which a later     *)
(* writer session may extend: the way to continue after a crash).  The     *)
(* expected result of every read is a function of the history:             *)
(* the values written, up to the cut (TdmsLayout's truncated-chunk rule),  *)
(* sliced by TdmsDataOps' window semantics.  Behaviours are long random    *)
(* walks (tlc -simulate) replayed into the real library in a scratch       *)
(* directory.                                                              *)
(***************************************************************************)
EXTENDS TdmsLayout, FiniteSets, TLC, Json

CONSTANTS ObjChoices,     \* object lists a write_segment call may carry: Seq([c, n, w]) over channels "x", "y"
          MaxWrites, MaxHist, GenPrint

VARIABLES segs,      \* segments written so far: Seq([objs, session])
          session,   \* number of the writer session (0: none yet), open or not
          wopen,
          cut,       \* [kind |-> "none"] or the crash: [kind |-> "leadin"|"meta"|"data", j, b]
          reader,    \* [state |-> "none" | "open" | "closed", mode, idx]
          base,      \* what the last defragment left: per channel [n |-> values (-1: channel absent), w |-> width (-1: unknown)]
          obs, hist
vars == <<segs, session, wopen, cut, reader, base, obs, hist>>

Chans == {"x", "y"}
NoneV == -1000
Min(a, b) == IF a < b THEN a ELSE b
Max(a, b) == IF a > b THEN a ELSE b

Record(o) == obs' = o /\ hist' = Append(hist, o)
CanAct == Len(hist) < MaxHist
NWrites == Len(segs)

(* ----------------------- what the file holds, per channel ----------------------- *)
ValsIn(seg, c) == Sum([i \in DOMAIN seg.objs |-> IF seg.objs[i].c = c THEN seg.objs[i].n ELSE 0])
\* values of channel c surviving in segment j, given the crash
Surviving(j, c) ==
  IF cut.kind = "none" \/ j < cut.j THEN ValsIn(segs[j], c)
  ELSE IF j > cut.j \/ cut.kind \in {"leadin", "meta"} THEN 0
  ELSE \* the cut falls b bytes into the raw data of segment j (one chunk per written segment)
       LET objs == segs[j].objs IN
       IF cut.b >= ChunkBytes(objs) THEN ValsIn(segs[j], c)
       ELSE IF \E i \in DOMAIN objs : objs[i].w = 0 THEN 0                     \* unsized data: nothing of the chunk
       ELSE LET fl == ContigLens(objs, 1, cut.b) IN
            Sum([i \in DOMAIN objs |-> IF objs[i].c = c THEN fl[i] ELSE 0])
LenOf(c) == Max(base[c].n, 0) + Sum([j \in DOMAIN segs |-> Surviving(j, c)])
\* the channel exists for a reader iff the copy holds it or some segment naming it has its metadata intact
Exists(c) == \/ base[c].n >= 0
             \/ \E j \in DOMAIN segs : /\ \E i \in DOMAIN segs[j].objs : segs[j].objs[i].c = c
                                       /\ (cut.kind = "none" \/ j < cut.j \/ (j = cut.j /\ cut.kind = "data"))
WidthOf(c) == IF base[c].w >= 0 THEN base[c].w
              ELSE IF \E j \in DOMAIN segs : \E i \in DOMAIN segs[j].objs : segs[j].objs[i].c = c
                   THEN LET j == CHOOSE j \in DOMAIN segs : \E i \in DOMAIN segs[j].objs : segs[j].objs[i].c = c
                            i == CHOOSE i \in DOMAIN segs[j].objs : segs[j].objs[i].c = c
                        IN segs[j].objs[i].w
                   ELSE -1
Readable == (segs # <<>> \/ \E c \in Chans : base[c].n >= 0) /\ ~(cut.kind = "leadin" /\ cut.j = 1 /\ \A c \in Chans : base[c].n < 0)
Incomplete == cut.kind = "data" /\ cut.b < ChunkBytes(segs[cut.j].objs)

(* --------------------------------- actions --------------------------------- *)
Init == /\ segs = <<>> /\ session = 0 /\ wopen = FALSE /\ cut = [kind |-> "none"]
        /\ reader = [state |-> "none"] /\ obs = [op |-> "none"] /\ hist = <<>>
        /\ base = [c \in Chans |-> [n |-> -1, w |-> -1]]

OpenWriter ==
  /\ CanAct /\ ~wopen /\ cut.kind = "none" /\ reader.state # "open" /\ NWrites < MaxWrites
  /\ wopen' = TRUE /\ session' = session + 1
  /\ Record([op |-> "open_writer", mode |-> IF session = 0 THEN "w" ELSE "a"])
  /\ UNCHANGED <<segs, cut, reader, base>>

Write ==
  /\ CanAct /\ wopen /\ NWrites < MaxWrites
  /\ \E objs \in ObjChoices :
       /\ \A i \in DOMAIN objs : WidthOf(objs[i].c) \in {-1, objs[i].w}             \* a channel keeps its type
       /\ segs' = Append(segs, [objs |-> objs, session |-> session])
       /\ Record([op |-> "write", objs |-> objs])
  /\ UNCHANGED <<session, wopen, cut, reader, base>>

CloseWriter ==
  /\ CanAct /\ wopen /\ wopen' = FALSE /\ Record([op |-> "close_writer"])
  /\ UNCHANGED <<segs, session, cut, reader, base>>

\* the process dies: the data file keeps a prefix.  The cut is named structurally: in segment j, inside the
\* lead-in, inside the metadata, or b bytes into the raw data
Crash ==
  /\ CanAct /\ ~wopen /\ cut.kind = "none" /\ segs # <<>> /\ reader.state # "open"
  /\ \E j \in DOMAIN segs :
       \/ \E k \in {"leadin", "meta"} : cut' = [kind |-> k, j |-> j, b |-> 0]
       \/ \E b \in 0..ChunkBytes(segs[j].objs) : cut' = [kind |-> "data", j |-> j, b |-> b]
  /\ Record([op |-> "crash", cut |-> cut'])
  /\ UNCHANGED <<segs, session, wopen, reader, base>>

\* TdmsWriter.defragment(file) -> copy, the copy (with its own index file, as every writer session here keeps one:
\* appending with an index to a file that has none is a caller error) takes the file's place:
\* every channel a reader would see, with the values a reader would see; nothing is incomplete any more, and a new
\* writer session may append to it
Defragment ==
  /\ CanAct /\ ~wopen /\ reader.state # "open" /\ Readable /\ segs # <<>>
  /\ Record([op |-> "defragment", exists |-> [c \in Chans |-> Exists(c)], len |-> [c \in Chans |-> LenOf(c)]])
  /\ base' = [c \in Chans |-> [n |-> IF Exists(c) THEN LenOf(c) ELSE -1, w |-> WidthOf(c)]]
  /\ segs' = <<>> /\ cut' = [kind |-> "none"]
  /\ UNCHANGED <<session, wopen, reader>>

OpenReader ==
  /\ CanAct /\ ~wopen /\ reader.state # "open"
  /\ Readable                                                    \* at least the first lead-in survives
  /\ \E m \in {"eager", "lazy"} : \E ix \in BOOLEAN :
       /\ reader' = [state |-> "open", mode |-> m, idx |-> ix]
       /\ Record([op |-> "open_reader", mode |-> m, idx |-> ix,
                  exists |-> [c \in Chans |-> Exists(c)], len |-> [c \in Chans |-> LenOf(c)],
                  incomplete |-> Incomplete])
  /\ UNCHANGED <<segs, session, wopen, cut, base>>

ReadWindow ==
  /\ CanAct /\ reader.state = "open"
  /\ \E c \in {d \in Chans : Exists(d)} : \E off \in 0..(LenOf(c) + 1) : \E len \in {NoneV} \cup 0..(LenOf(c) + 1) :
       LET L == LenOf(c)
           lo == Min(off, L)
           hi == IF len = NoneV THEN L ELSE Min(L, off + len)
       IN Record([op |-> "window", ch |-> c, off |-> off, len |-> len, first |-> lo, count |-> Max(0, hi - lo)])
  /\ UNCHANGED <<segs, session, wopen, cut, reader, base>>

ReadChunks ==       \* concatenation of channel.data_chunks() (lazy readers)
  /\ CanAct /\ reader.state = "open" /\ reader.mode = "lazy"
  /\ \E c \in {d \in Chans : Exists(d)} : Record([op |-> "chunks", ch |-> c, first |-> 0, count |-> LenOf(c)])
  /\ UNCHANGED <<segs, session, wopen, cut, reader, base>>

CloseReader ==
  /\ CanAct /\ reader.state = "open" /\ reader' = [state |-> "closed", mode |-> reader.mode, idx |-> reader.idx]
  /\ Record([op |-> "close_reader", lazy |-> reader.mode = "lazy"])
  /\ UNCHANGED <<segs, session, wopen, cut, base>>

Next == OpenWriter \/ Write \/ CloseWriter \/ Crash \/ Defragment \/ OpenReader \/ ReadWindow \/ ReadChunks \/ CloseReader
Spec == Init /\ [][Next]_vars

(* -------------------------------- properties -------------------------------- *)
\* nothing is invented and nothing of the segments wholly before the cut is lost
Bounded == \A c \in Chans :
  /\ LenOf(c) <= Max(base[c].n, 0) + Sum([j \in DOMAIN segs |-> ValsIn(segs[j], c)])
  /\ cut.kind # "none" => LenOf(c) >= Max(base[c].n, 0) + Sum([j \in 1..(cut.j - 1) |-> ValsIn(segs[j], c)])
\* a copy never holds a channel of unknown type with values
BaseTyped == \A c \in Chans : base[c].n > 0 => base[c].w >= 0
NoWriteAfterCrash == cut.kind # "none" => ~wopen

GenCase == (GenPrint /\ Len(hist) = MaxHist) => PrintT(<<"GEN", ToJson([hist |-> hist])>>)
=============================================================================
