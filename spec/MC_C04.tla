---- MODULE MC_C04 ----
EXTENDS TdmsData
c_NVals == {1, 2, 3}
c_KVals == {1, 2, 3}
c_NValsQ == {1, 3}
c_KValsQ == {1, 3}
c_Steps == {1, 2, 3, -1, -2, -3}
====
