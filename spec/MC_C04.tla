---- MODULE MC_C04 ----
EXTENDS TdmsData
c_NVals == {1, 2, 3}
c_KVals == {1, 2, 3}
c_NValsQ == {1, 3}
c_KValsQ == {1, 3}
\* long files: 130 segments diverging at 120 (2 -> 3 values), 101 segments diverging in the last one, 230 segments
\* diverging at 205, 205 segments diverging at segment 201 (3 -> 1)
c_LongNone == {}
c_Long == {<<130, 120, 2, 3>>, <<101, 100, 1, 2>>, <<230, 205, 1, 2>>, <<205, 200, 3, 1>>}
c_LongQ == {<<101, 100, 1, 2>>}
c_Steps == {1, 2, 3, -1, -2, -3}
====
