SPECIFICATION TSpec
CONSTANTS
  Verbose = FALSE
INVARIANT Accepted
INVARIANT Progress
CHECK_DEADLOCK FALSE
