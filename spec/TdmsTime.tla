------------------------------- MODULE TdmsTime -------------------------------
(***************************************************************************)
(* TDMS timestamps (DESIGN.md 3.10): C12.  A timestamp is <<seconds,       *)
(* fractions>> with 0 <= fractions < 2^64; the exact time is               *)
(* seconds + fractions / 2^64 (seconds since 1904).  All quantities are    *)
(* BigNat limb sequences; seconds and unit counts are BIASED by the        *)
(* harness (a constant added so that everything is non-negative).          *)
(*                                                                         *)
(* FloorUnits(ts, S) = floor(exact time * S) for S units per second.       *)
(* Relations the recorded conversions of the real code must satisfy:       *)
(*   WrittenDenotes - the (seconds, fractions) written for a microsecond   *)
(*                    datetime lies in [us, us + 1) microseconds,          *)
(*   RoundTrip      - reading back yields the identical microsecond count, *)
(*   WithinOneUnit  - |result - FloorUnits| <= 1,                          *)
(*   ScalarIsArray  - scalar and array conversion agree,                   *)
(*   Monotone       - along records sorted by (seconds, fractions) the     *)
(*                    results never decrease.                              *)
(***************************************************************************)
EXTENDS BigNat, TLC

\* floor(frac * S / 2^64) = q  <=>  q * 2^64 <= frac * S < (q + 1) * 2^64
IsFloorOfFrac(q, frac, S) ==
  LET p == Mul(frac, S) IN Le(Mul(q, TwoTo64), p) /\ Lt(p, Mul(Add(q, One), TwoTo64))

\* units == sec * S + q  with q = floor(frac * S / 2^64), for some q given by the difference units - sec * S
\* (passed explicitly by the harness as `sub' = units - sec * S, a non-negative count below S)
DenotesFloor(units, sec, frac, S, sub) ==
  /\ units = Add(Mul(sec, S), sub)
  /\ IsFloorOfFrac(sub, frac, S)

Diff1(a, b) == a = b \/ Add(a, One) = b \/ Add(b, One) = a          \* |a - b| <= 1
=============================================================================
