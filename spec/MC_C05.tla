---- MODULE MC_C05 ----
(* C05: file shapes chosen to separate the mechanisms: multi-chunk contiguous, interleaved, segments with different
   object lists, truncated final chunk (contiguous and interleaved). *)
EXTENDS TdmsOpenFile
G(nx, ny, k) == [nx |-> nx, ny |-> ny, k |-> k, lastx |-> nx, lasty |-> ny]
T(nx, ny, k, lx, ly) == [nx |-> nx, ny |-> ny, k |-> k, lastx |-> lx, lasty |-> ly]
S1 == [il |-> FALSE, segs |-> <<G(2, 1, 3), G(1, 2, 2)>>]
S2 == [il |-> TRUE,  segs |-> <<G(2, 2, 2), G(1, 1, 3)>>]
S3 == [il |-> FALSE, segs |-> <<G(2, 0, 2), G(0, 3, 1), G(1, 1, 2)>>]
S4 == [il |-> FALSE, segs |-> <<G(1, 1, 1), T(2, 2, 3, 2, 1)>>]
S5 == [il |-> FALSE, segs |-> <<T(2, 2, 2, 1, 0)>>]
S6 == [il |-> TRUE,  segs |-> <<G(1, 1, 2), T(2, 2, 3, 1, 1)>>]
S7 == [il |-> FALSE, segs |-> <<G(3, 0, 3)>>]
\* beyond the small scope: more than 100 segments, the two channels agreeing on the first 104 and differing after
RECURSIVE Rep(_, _)
Rep(s, n) == IF n = 0 THEN <<>> ELSE s \o Rep(s, n - 1)
S8 == [il |-> FALSE, segs |-> Rep(<<G(1, 1, 1)>>, 104) \o <<G(1, 2, 1), G(2, 1, 1), G(1, 1, 2)>>]
\* exactly 100 segments, the channels differing in the last one only (block boundary of the offsets comparison)
S9 == [il |-> FALSE, segs |-> Rep(<<G(1, 1, 1)>>, 99) \o <<G(2, 1, 1)>>]
c_Long == {S8, S9}
\* two channels with the same per-segment counts but shifted by one segment: equal cumulative offsets, different
\* first segment (the offsets array is shared between them)
S10 == [il |-> FALSE, segs |-> <<G(2, 0, 2), G(2, 2, 2), G(0, 2, 2)>>]
c_All == {S1, S2, S3, S4, S5, S6, S7, S10}
c_Quick == {S1, S3, S6, S10}
====
