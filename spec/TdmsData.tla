------------------------------ MODULE TdmsData ------------------------------
(***************************************************************************)
(* Behaviour over TdmsDataOps: choose a shape, then one request; TLC       *)
(* checks the algorithm models against the abstract results for every      *)
(* (shape, request) and prints one GEN case per shape.  C04, C19.          *)
(***************************************************************************)
EXTENDS TdmsDataOps

CONSTANTS
  MaxSegs, NVals, KVals,
  Trunc,        \* TRUE: the last segment may have a truncated final chunk
  Extra,        \* offsets / lengths / slice bounds range up to L + Extra
  Steps,        \* slice steps explored (non-zero integers) ; 0 and None are always explored
  MaxSliceLen,  \* slices are explored for channels of at most this length
  GenPrint

VARIABLES shape, req
vars == <<shape, req>>

(* ------------------------------- shapes -------------------------------- *)
Absent == [pres |-> FALSE, n |-> 0, k |-> 0, last |-> 0]
FullSegs == {Absent} \cup {[pres |-> TRUE, n |-> n, k |-> k, last |-> n] : n \in NVals, k \in KVals}
TruncSegs == {s \in [pres : {TRUE}, n : NVals, k : KVals, last : 0..100] : s.last < s.n}

RECURSIVE SeqsUpTo(_, _)
SeqsUpTo(S, n) == IF n = 0 THEN {<<>>} ELSE LET r == SeqsUpTo(S, n - 1) IN r \cup {Append(s, x) : s \in {t \in r : Len(t) = n - 1}, x \in S}

\* Long files, outside the small scope on purpose: the implementation compares the per-channel offset tables of two
\* channels in blocks of 100 segments before sharing one table between them, a constant no 4-segment file reaches.
\* A long shape <<m, cut, n1, n2>> has m one-chunk segments of n1 values up to segment `cut' and of n2 values after
\* it (the harness gives the second channel n1 values throughout, so the two tables agree on a long prefix only).
\* LongSpecs is empty unless a configuration overrides it (LongSpecs <- c_Long...).
LongSpecs == {}
LongShape(t) == [j \in 1..t[1] |-> [pres |-> TRUE, n |-> IF j <= t[2] THEN t[3] ELSE t[4], k |-> 1,
                                     last |-> IF j <= t[2] THEN t[3] ELSE t[4]]]
LongL == 60     \* channels longer than this get a sparse request set (below)

Shapes ==
  LET base == SeqsUpTo(FullSegs, MaxSegs) IN
  (IF ~Trunc THEN base
   ELSE base \cup {Append(s, t) : s \in SeqsUpTo(FullSegs, MaxSegs - 1), t \in TruncSegs})
  \cup {LongShape(t) : t \in LongSpecs}

(* ------------------------------ behaviour ------------------------------- *)
NoReq == [kind |-> "none"]

\* for a long channel: the head, and every offset of the last 45 values and beyond; a few lengths
WinOffs(L) == IF L > LongL THEN {0, 1, L \div 2} \cup (L - 45)..(L + Extra) ELSE 0..(L + Extra)
WinLens(L) == IF L > LongL THEN {NoneV, 0, 1, 2, 7, 50} ELSE {NoneV} \cup 0..(L + Extra)
Windows(L) == {[kind |-> "window", off |-> o, len |-> l] : o \in WinOffs(L), l \in WinLens(L)}
Bounds(L) == {NoneV} \cup (-(L + Extra))..(L + Extra)
Slices(L) == IF L > MaxSliceLen THEN {}
             ELSE {[kind |-> "slice", start |-> a, stop |-> b, step |-> st] :
                      a \in Bounds(L), b \in Bounds(L), st \in Steps \cup {0, NoneV}}
IdxSet(L) == IF L > LongL THEN {0, 1, L \div 2} \cup (L - 45)..(L + Extra) \cup (-(L + Extra))..(-L + 2) \cup (-45)..(-1)
             ELSE (-(L + Extra))..(L + Extra)
Indices(L) == {[kind |-> "index", i |-> i] : i \in IdxSet(L)}
Requests(segs) == LET L == TotalLen(segs) IN Windows(L) \cup Slices(L) \cup Indices(L)

Layouts == {FALSE, TRUE}        \* il

\* req.kind = "init": shape chosen, nothing evaluated yet (keeps the single-threaded initial-state phase cheap;
\* the per-shape work is done when the workers take the Start step)
\* (long shapes contiguous only: interleaved channels have equal values per segment, hence equal tables)
Init == /\ shape \in {sh \in [segs : Shapes, il : Layouts] : Len(sh.segs) > 50 => ~sh.il} /\ req = [kind |-> "init"]
Start == /\ req.kind = "init" /\ req' = NoReq /\ UNCHANGED shape
Ask  == /\ req = NoReq /\ req' \in Requests(shape.segs) /\ UNCHANGED shape
Next == Start \/ Ask
Spec == Init /\ [][Next]_vars

Abstract(segs, r) ==
  LET L == TotalLen(segs) IN
  CASE r.kind = "window" -> AbsWindow(L, r.off, r.len)
    [] r.kind = "slice"  -> AbsSlice(L, r.start, r.stop, r.step)
    [] r.kind = "index"  -> AbsIndex(L, r.i)

Algorithm(sh, r) ==
  CASE r.kind = "window" -> Delivered(AlgWindow(sh.segs, sh.il, r.off, r.len))
    [] r.kind = "slice"  -> AlgSlice(sh.segs, sh.il, r.start, r.stop, r.step)
    [] r.kind = "index"  -> AlgIndex(sh.segs, r.i).out

(* ------------------------------ properties ------------------------------ *)
\* C04: the algorithm returns what the same index returns on the full array
AlgorithmCorrect == req.kind \notin {"none", "init"} => Algorithm(shape, req) = Abstract(shape.segs, req)

\* C19 (specification level): the algorithm fetches only chunks that overlap the request
FootprintBounded ==
  /\ req.kind = "window" =>
        {c \in AlgWindow(shape.segs, shape.il, req.off, req.len).fetch : NonEmptyChunk(shape.segs, c)}
            \subseteq AllowedWindow(shape.segs, req.off, req.len)
  /\ req.kind = "index" /\ AlgIndex(shape.segs, req.i).out.err = "" =>
        LET i == IF req.i < 0 THEN TotalLen(shape.segs) + req.i ELSE req.i IN
        {AlgIndex(shape.segs, req.i).chunk} = Overlapping(shape.segs, i, i + 1)

\* GEN: one test case per shape, carrying every request with its abstract result
GenCase == (GenPrint /\ req = NoReq) =>
  PrintT(<<"GEN", ToJson([shape |-> shape,
                          len |-> TotalLen(shape.segs),
                          chunks |-> Chunks(shape.segs),
                          cases |-> {[req |-> r, expect |-> Abstract(shape.segs, r)] :
                                       r \in Requests(shape.segs)}])>>)
=============================================================================
