------------------------------ MODULE TdmsData ------------------------------
(***************************************************************************)
(* Behaviour over TdmsDataOps: choose a shape, then one request; TLC       *)
(* checks the algorithm models against the abstract results for every      *)
(* (shape, request) and prints one GEN case per shape.  C04, C19.          *)
(***************************************************************************)
EXTENDS TdmsDataOps

CONSTANTS
  MaxSegs, NVals, KVals,
  Trunc,        \* TRUE: the last segment may have a truncated final chunk
  Extra,        \* offsets / lengths / slice bounds range up to L + Extra
  Steps,        \* slice steps explored (non-zero integers) ; 0 and None are always explored
  MaxSliceLen,  \* slices are explored for channels of at most this length
  GenPrint

VARIABLES shape, req
vars == <<shape, req>>

(* ------------------------------- shapes -------------------------------- *)
Absent == [pres |-> FALSE, n |-> 0, k |-> 0, last |-> 0]
FullSegs == {Absent} \cup {[pres |-> TRUE, n |-> n, k |-> k, last |-> n] : n \in NVals, k \in KVals}
TruncSegs == {s \in [pres : {TRUE}, n : NVals, k : KVals, last : 0..100] : s.last < s.n}

RECURSIVE SeqsUpTo(_, _)
SeqsUpTo(S, n) == IF n = 0 THEN {<<>>} ELSE LET r == SeqsUpTo(S, n - 1) IN r \cup {Append(s, x) : s \in {t \in r : Len(t) = n - 1}, x \in S}

Shapes ==
  LET base == SeqsUpTo(FullSegs, MaxSegs) IN
  IF ~Trunc THEN base
  ELSE base \cup {Append(s, t) : s \in SeqsUpTo(FullSegs, MaxSegs - 1), t \in TruncSegs}

(* ------------------------------ behaviour ------------------------------- *)
NoReq == [kind |-> "none"]

Windows(L) == {[kind |-> "window", off |-> o, len |-> l] : o \in 0..(L + Extra), l \in {NoneV} \cup 0..(L + Extra)}
Bounds(L) == {NoneV} \cup (-(L + Extra))..(L + Extra)
Slices(L) == IF L > MaxSliceLen THEN {}
             ELSE {[kind |-> "slice", start |-> a, stop |-> b, step |-> st] :
                      a \in Bounds(L), b \in Bounds(L), st \in Steps \cup {0, NoneV}}
Indices(L) == {[kind |-> "index", i |-> i] : i \in (-(L + Extra))..(L + Extra)}
Requests(segs) == LET L == TotalLen(segs) IN Windows(L) \cup Slices(L) \cup Indices(L)

Layouts == {FALSE, TRUE}        \* il

\* req.kind = "init": shape chosen, nothing evaluated yet (keeps the single-threaded initial-state phase cheap;
\* the per-shape work is done when the workers take the Start step)
Init == /\ shape \in [segs : Shapes, il : Layouts] /\ req = [kind |-> "init"]
Start == /\ req.kind = "init" /\ req' = NoReq /\ UNCHANGED shape
Ask  == /\ req = NoReq /\ req' \in Requests(shape.segs) /\ UNCHANGED shape
Next == Start \/ Ask
Spec == Init /\ [][Next]_vars

Abstract(segs, r) ==
  LET L == TotalLen(segs) IN
  CASE r.kind = "window" -> AbsWindow(L, r.off, r.len)
    [] r.kind = "slice"  -> AbsSlice(L, r.start, r.stop, r.step)
    [] r.kind = "index"  -> AbsIndex(L, r.i)

Algorithm(sh, r) ==
  CASE r.kind = "window" -> Delivered(AlgWindow(sh.segs, sh.il, r.off, r.len))
    [] r.kind = "slice"  -> AlgSlice(sh.segs, sh.il, r.start, r.stop, r.step)
    [] r.kind = "index"  -> AlgIndex(sh.segs, r.i).out

(* ------------------------------ properties ------------------------------ *)
\* C04: the algorithm returns what the same index returns on the full array
AlgorithmCorrect == req.kind \notin {"none", "init"} => Algorithm(shape, req) = Abstract(shape.segs, req)

\* C19 (specification level): the algorithm fetches only chunks that overlap the request
FootprintBounded ==
  /\ req.kind = "window" =>
        {c \in AlgWindow(shape.segs, shape.il, req.off, req.len).fetch : NonEmptyChunk(shape.segs, c)}
            \subseteq AllowedWindow(shape.segs, req.off, req.len)
  /\ req.kind = "index" /\ AlgIndex(shape.segs, req.i).out.err = "" =>
        LET i == IF req.i < 0 THEN TotalLen(shape.segs) + req.i ELSE req.i IN
        {AlgIndex(shape.segs, req.i).chunk} = Overlapping(shape.segs, i, i + 1)

\* GEN: one test case per shape, carrying every request with its abstract result
GenCase == (GenPrint /\ req = NoReq) =>
  PrintT(<<"GEN", ToJson([shape |-> shape,
                          len |-> TotalLen(shape.segs),
                          chunks |-> Chunks(shape.segs),
                          cases |-> {[req |-> r, expect |-> Abstract(shape.segs, r)] :
                                       r \in Requests(shape.segs)}])>>)
=============================================================================
