---- MODULE MC_C01_props ----
(* C01 slice (iii): property-heavy. root, one group, one channel; property updates on any object in any segment;
   the last value written wins. *)
EXTENDS TdmsSegments
R == "/"
G == "/'g'"
A == "/'g'/'a'"
c_Paths == {R, G, A}
c_Chans == {A}
c_Groups == {G}
c_GroupOf == [c \in {A} |-> G]
c_ObjLists == {<<R, G, A>>, <<A>>, <<G>>, <<R>>, <<A, R>>}
c_TypeSet == {"Int16"}
c_Width == [t \in {"Int16"} |-> 2]
c_Unsized == {}
c_NVals == {1}
c_KVals == {1}
c_Layouts == {"contig"}
c_Orders == {"le", "be"}
c_PropNames == {"p1", "p2"}
c_PropVals == {"v1", "v2"}
c_Forbidden == {}
====
