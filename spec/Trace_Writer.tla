----------------------------- MODULE Trace_Writer -----------------------------
(***************************************************************************)
(* C08, code -> spec.  A trace is what the independent structural parser   *)
(* found in the bytes TdmsWriter produced for one program: one event per   *)
(* segment of the data file (and of the index file when one was asked      *)
(* for).  The trace specification is the TDMS layout used as a RECOGNISER: *)
(* a trace is accepted iff every segment is self-consistent, parents are   *)
(* declared first, and the index file is the data file minus raw data.     *)
(* State: the set of objects declared so far and the format version.       *)
(***************************************************************************)
EXTENDS Integers, Sequences, FiniteSets, TLC, IOUtils, Json

CONSTANT Verbose

Traces == ndJsonDeserialize(IOEnv.TRACE_FILE)

VARIABLES tid, l, declared, version
tvars == <<tid, l, declared, version>>
Tr == Traces[tid]

SizeOf(t) ==
  CASE t \in {"Int8", "Uint8", "Boolean"} -> 1
    [] t \in {"Int16", "Uint16"} -> 2
    [] t \in {"Int32", "Uint32", "SingleFloat", "SingleFloatWithUnit"} -> 4
    [] t \in {"Int64", "Uint64", "DoubleFloat", "DoubleFloatWithUnit", "ComplexSingleFloat"} -> 8
    [] t \in {"TimeStamp", "ComplexDoubleFloat"} -> 16
    [] OTHER -> -1000000        \* a type without a width makes every size equation fail

RECURSIVE SumF(_, _)
SumF(f, n) == IF n = 0 THEN 0 ELSE f[n] + SumF(f, n - 1)

DataSize(o) == IF o.kind # "full" THEN 0
               ELSE IF o.type = "String" THEN o.total ELSE o.n * SizeOf(o.type)

TocMeta == 2
TocNewList == 4
TocRaw == 8

\* one segment of the data file is self-consistent under the TDMS layout
SegmentOK(e) ==
  /\ e.err = ""
  /\ e.tag = "TDSm"
  /\ e.toc = TocMeta + TocNewList + TocRaw
  /\ e.version \in {4712, 4713}
  /\ e.raw_off = e.meta_parsed                                   \* the metadata parses to exactly raw-data-offset bytes
  /\ e.next_off = e.raw_off + SumF([i \in DOMAIN e.objs |-> DataSize(e.objs[i])], Len(e.objs))
  /\ e.raw_len = e.next_off - e.raw_off                          \* the raw data actually written has the declared length
  /\ \A i \in DOMAIN e.objs :
       LET o == e.objs[i] IN
       /\ o.kind \in {"full", "nodata"}
       /\ o.kind = "full" => /\ o.idx_hdr = o.idx_bytes          \* the index length field counts the bytes of its block
                             /\ o.dim = 1
  /\ \A i, j \in DOMAIN e.objs : i # j => e.objs[i].path # e.objs[j].path

\* every object's parent is declared no later than the object: earlier in this segment or in an earlier segment
ParentsOK(e, decl) ==
  \A i \in DOMAIN e.objs :
     LET o == e.objs[i] IN
     o.parent = "" \/ o.parent \in decl \/ \E j \in 1..(i - 1) : e.objs[j].path = o.parent

\* the index twin: same lead-in (but for the tag) and metadata, byte for byte, no raw data
IndexOK(tr, n) ==
  tr.has_index =>
    /\ n <= Len(tr.index)
    /\ LET x == tr.index[n]  e == tr.segs[n] IN
       /\ x.err = "" /\ x.tag = "TDSh"
       /\ x.meta_crc = e.meta_crc /\ x.meta_parsed = e.meta_parsed
       /\ x.pos = SumF([m \in 1..(n - 1) |-> 28 + tr.segs[m].meta_parsed], n - 1)

TInit == tid \in DOMAIN Traces /\ l = 1 /\ declared = {} /\ version = 0
TStep ==
  /\ l <= Len(Tr.segs)
  /\ LET e == Tr.segs[l] IN
     /\ SegmentOK(e)
     /\ l = 1 => (Len(e.objs) >= 1 /\ e.objs[1].path = "/")     \* the first segment declares the root object
     /\ ParentsOK(e, declared)
     /\ version = 0 \/ version = e.version
     /\ IndexOK(Tr, l)
     /\ declared' = declared \cup {e.objs[i].path : i \in DOMAIN e.objs}
     /\ version' = e.version
  /\ l' = l + 1 /\ UNCHANGED tid
TSpec == TInit /\ [][TStep]_tvars

Done == l = Len(Tr.segs) + 1
\* at the end, the index file has no further segments and the data file no trailing bytes
EndOK == (~Tr.has_index \/ Len(Tr.index) = Len(Tr.segs)) /\ Tr.trailing = 0
Accepted == (Done /\ EndOK) => PrintT(<<"ACCEPT", Tr.id>>)
Progress == Verbose => PrintT(<<"AT", Tr.id, l>>)
=============================================================================
