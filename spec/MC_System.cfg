SPECIFICATION Spec
CONSTANTS
  ObjChoices <- c_ObjChoices
  MaxWrites = 3
  MaxHist = 12
  GenPrint = FALSE
INVARIANT Bounded
INVARIANT NoWriteAfterCrash
INVARIANT BaseTyped
INVARIANT GenCase
CHECK_DEADLOCK FALSE
