---- MODULE MC_C03 ----
(* C03: all two-channel shapes of up to MaxSegs3 segments: per segment values per chunk of x and y in 0..2 (not
   both 0), 1..2 chunks, both layouts (interleaved needs equal lengths), optional truncated final chunk. *)
EXTENDS TdmsOpenFile
CONSTANT MaxSegs3
Full == {[nx |-> a, ny |-> b, k |-> k, lastx |-> a, lasty |-> b] : a \in 0..2, b \in 0..2, k \in 1..2} \
          {g \in [nx : {0}, ny : {0}, k : 1..2, lastx : {0}, lasty : {0}] : TRUE}
\* contiguous truncation: x (first in the chunk) whole and y short, or x short and y gone
TruncC == {[nx |-> a, ny |-> b, k |-> k, lastx |-> lx, lasty |-> ly] :
             a \in 1..2, b \in 0..2, k \in 1..2, lx \in 0..2, ly \in 0..2}
TruncCOK(g) == g.lastx <= g.nx /\ g.lasty <= g.ny /\
               ((g.lastx < g.nx /\ g.lasty = 0) \/ (g.lastx = g.nx /\ g.lasty < g.ny))
TruncI == {[nx |-> a, ny |-> a, k |-> k, lastx |-> l, lasty |-> l] : a \in 1..2, k \in 1..2, l \in 0..1}
RECURSIVE Seqs(_, _)
Seqs(S, n) == IF n = 0 THEN {<<>>} ELSE LET r == Seqs(S, n - 1) IN r \cup {Append(s, x) : s \in {t \in r : Len(t) = n - 1}, x \in S}
ILOK(g) == g.nx = 0 \/ g.ny = 0 \/ g.nx = g.ny
Contig == {[il |-> FALSE, segs |-> s] : s \in Seqs(Full, MaxSegs3) \ {<<>>}}
          \cup {[il |-> FALSE, segs |-> Append(s, t)] : s \in Seqs(Full, MaxSegs3 - 1), t \in {g \in TruncC : TruncCOK(g)}}
Inter == {[il |-> TRUE, segs |-> s] : s \in Seqs({g \in Full : ILOK(g)}, MaxSegs3) \ {<<>>}}
         \cup {[il |-> TRUE, segs |-> Append(s, t)] : s \in Seqs({g \in Full : ILOK(g)}, MaxSegs3 - 1),
                                                       t \in {g \in TruncI : g.lastx < g.nx}}
c_Shapes == Contig \cup Inter
====
