---- MODULE MC_C06 ----
(* C06: files of 1..MaxSegs6 segments over two channels; fixed-width types of sizes 1,4,8,16 and string; 1..3 chunks;
   contiguous / interleaved; a metadata-less last segment; explicit next-segment offset or marker. *)
EXTENDS TdmsTruncate
CONSTANTS MaxSegs6, Widths, NVals6, KVals6
O(c, n, w) == [c |-> c, n |-> n, w |-> w]
ObjLists == {<<O("x", n, w)>> : n \in NVals6, w \in Widths}
            \cup {<<O("x", n, w), O("y", m, v)>> : n \in NVals6, m \in NVals6, w \in Widths, v \in Widths}
            \cup {<<O("y", m, v), O("x", n, w)>> : n \in {2}, m \in {1}, w \in Widths, v \in {4}}
ILOK(objs) == (\A i \in DOMAIN objs : objs[i].w # 0) /\ (\A i, j \in DOMAIN objs : objs[i].n = objs[j].n)
SegSet == {[meta |-> TRUE, il |-> il, k |-> k, objs |-> l] : il \in BOOLEAN, k \in KVals6, l \in ObjLists}
Segs == {s \in SegSet : s.il => ILOK(s.objs)}
NoMeta(s) == [meta |-> FALSE, il |-> s.il, k |-> 1, objs |-> <<>>]
RECURSIVE Seqs(_, _)
Seqs(S, n) == IF n = 0 THEN {<<>>} ELSE LET r == Seqs(S, n - 1) IN r \cup {Append(s, x) : s \in {t \in r : Len(t) = n - 1}, x \in S}
Plain == Seqs(Segs, MaxSegs6) \ {<<>>}
WithNoMeta == {Append(s, NoMeta(s[Len(s)])) : s \in {t \in Plain : Len(t) < MaxSegs6 + 1}}
\* a last segment that carries metadata only (an index with zero values: no raw data, kTocRawData unset)
MetaOnly(w) == [meta |-> TRUE, il |-> FALSE, k |-> 0, objs |-> <<O("x", 0, w)>>]
WithMetaOnly == {Append(s, MetaOnly(w)) : s \in {t \in Plain : Len(t) < MaxSegs6 + 1}, w \in Widths}
c_Files == {[segs |-> s, marker |-> m] : s \in Plain \cup WithNoMeta \cup WithMetaOnly, m \in BOOLEAN}
====
