---- MODULE MC_C09 ----
EXTENDS TdmsIndexFile
CONSTANTS MaxSegs6, Widths, NVals6, KVals6
O(c, n, w) == [c |-> c, n |-> n, w |-> w]
ObjLists == {<<O("x", n, w)>> : n \in NVals6, w \in Widths}
            \cup {<<O("x", n, w), O("y", m, v)>> : n \in NVals6, m \in NVals6, w \in Widths, v \in Widths}
ILOK(objs) == (\A i \in DOMAIN objs : objs[i].w # 0) /\ (\A i, j \in DOMAIN objs : objs[i].n = objs[j].n)
SegSet == {[meta |-> TRUE, il |-> il, k |-> k, objs |-> l] : il \in BOOLEAN, k \in KVals6, l \in ObjLists}
Segs == {s \in SegSet : s.il => ILOK(s.objs)}
NoMeta(s) == [meta |-> FALSE, il |-> s.il, k |-> 1, objs |-> <<>>]
RECURSIVE Seqs(_, _)
Seqs(S, n) == IF n = 0 THEN {<<>>} ELSE LET r == Seqs(S, n - 1) IN r \cup {Append(s, x) : s \in {t \in r : Len(t) = n - 1}, x \in S}
Plain == Seqs(Segs, MaxSegs6) \ {<<>>}
WithNoMeta == {Append(s, NoMeta(s[Len(s)])) : s \in Plain}
c_Files == {[segs |-> s, marker |-> m] : s \in Plain \cup WithNoMeta, m \in BOOLEAN}
====
