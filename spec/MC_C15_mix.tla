---- MODULE MC_C15_mix ----
(* C15: two segments whose byte order is chosen independently; representative type of every kind, both layouts *)
EXTENDS TdmsSegments
A == "/'g'/'a'"
B == "/'g'/'b'"
c_Paths == {A, B}
c_Chans == {A, B}
c_Groups == {}
c_GroupOf == [c \in {A, B} |-> "/'g'"]
c_ObjLists == {<<A, B>>}
c_TypeSet == {"Int16", "Uint64", "SingleFloat", "String", "TimeStamp", "ComplexSingleFloat", "Boolean"}
c_Width == [t \in c_TypeSet |->
   CASE t = "Boolean" -> 1 [] t = "Int16" -> 2 [] t = "SingleFloat" -> 4
     [] t \in {"Uint64", "ComplexSingleFloat"} -> 8 [] t = "TimeStamp" -> 16 [] OTHER -> 6]
c_Unsized == {"String"}
c_NVals == {2}
c_KVals == {1, 2}
c_Layouts == {"contig", "il"}
c_Orders == {"le", "be"}
c_PropNames == {}
c_PropVals == {}
c_Forbidden == {}
c_TypeSetInh == {"Int16", "TimeStamp"}
c_ObjListsInh == {<<A, B>>, <<A>>}
====
