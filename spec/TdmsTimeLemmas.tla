--------------------------- MODULE TdmsTimeLemmas ---------------------------
(* Specification-level lemmas over true 64-bit constants, discharged by Apalache (unbounded SMT integers):
   the writer's fraction for a microsecond value denotes that microsecond, fits in 64 bits, and is strictly
   increasing; the exact floor conversion is monotone in (seconds, fractions). *)
EXTENDS Integers

VARIABLES
  \* @type: Int;
  us,
  \* @type: Int;
  us2

TwoTo64 == 18446744073709551616
FromUs(u) == (u * TwoTo64) \div 1000000 + 16384
FloorUs(frac) == (frac * 1000000) \div TwoTo64

Init == us \in 0..999999 /\ us2 \in 0..999999
Next == UNCHANGED <<us, us2>>

Denotes == FloorUs(FromUs(us)) = us
Fits == FromUs(us) < TwoTo64 /\ FromUs(us) >= 0
Increasing == us < us2 => FromUs(us) < FromUs(us2)
Inv == Denotes /\ Fits /\ Increasing
=============================================================================
