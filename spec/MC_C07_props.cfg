SPECIFICATION Spec
CONSTANTS
  Root <- R
  GroupsW <- c_Groups
  ChansW <- c_ChansOne
  GroupOfW <- c_GroupOf
  GroupRank <- c_GroupRank
  ObjSeqs <- c_SeqsProps
  ArrayClasses = {"np_float32"}
  Lens = {2}
  ValueClasses <- c_AllValueClasses
  PropNamesW = {"p1", "p2"}
  MaxPropObjsW = 1
  MaxCalls = 2
  MaxSessions = 1
  MaxRefused = 0
  GenPrint = FALSE
INVARIANT RoundTrip
INVARIANT ParentsFirst
INVARIANT GenCase
CHECK_DEADLOCK FALSE
