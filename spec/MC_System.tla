---- MODULE MC_System ----
EXTENDS TdmsSystem
O(c, n, w) == [c |-> c, n |-> n, w |-> w]
c_ObjChoices == {<<O("x", 3, 4)>>, <<O("x", 2, 4), O("y", 3, 8)>>, <<O("y", 1, 8), O("x", 2, 4)>>, <<O("y", 2, 8)>>,
                 <<O("x", 1, 4), O("y", 0, 8)>>}
c_ObjChoicesStr == {<<O("x", 2, 0)>>, <<O("x", 2, 0), O("y", 2, 2)>>, <<O("y", 3, 2)>>}
====
