--------------------------- MODULE Trace_Footprint ---------------------------
(***************************************************************************)
(* C19, code -> spec.  Each trace is one lazily opened file (its shape and *)
(* the byte layout the independent encoder produced) and a sequence of     *)
(* operations with the (position, size) of every read the real library     *)
(* issued on the stream while serving them.  A trace is ACCEPTED iff for   *)
(* every step all fetched bytes lie in the union of                        *)
(*   - the raw data of the chunks that overlap the request (TdmsData's     *)
(*     Overlapping) - for contiguous layout only the channel's own bytes,  *)
(*   - the 4-byte tag of each segment from the first to the last           *)
(*     overlapping segment (one segment for an empty request),             *)
(* and an index into the chunk fetched by the previous step fetches        *)
(* nothing.                                                                *)
(***************************************************************************)
EXTENDS TdmsDataOps, IOUtils

CONSTANT Verbose

Traces == ndJsonDeserialize(IOEnv.TRACE_FILE)

VARIABLES tid, l, cache, ref
tvars == <<tid, l, cache, ref>>

Tr == Traces[tid]

Bytes(p, n) == p..(p + n - 1)
ReadBytes(reads) == UNION {Bytes(reads[i][1], reads[i][2]) : i \in DOMAIN reads}

\* bytes of chunk <<j, c>> that belong to the request's channel
ChunkRegion(tr, ch) ==
  LET j == ch[1]  c == ch[2]  s == tr.segs[j]  la == tr.lay[j]
      base == la.dataPos + c * la.chunkBytes
      cnt == IF c = s.k - 1 THEN s.last ELSE s.n
  IN IF tr.il THEN Bytes(base, la.chunkBytes)      \* interleaved rows: the whole chunk (a truncated one ends at EOF)
     ELSE Bytes(base + la.xoff, IF cnt = s.n THEN la.xlen ELSE cnt * la.xsz)

Region(tr, chunks) == UNION {ChunkRegion(tr, ch) : ch \in chunks}

SegOfToken(segs, t) == CHOOSE j \in DOMAIN segs : Base(segs, j) <= t /\ t < Base(segs, j) + Vals(segs[j])

\* segments whose tag may be re-read: first to last overlapping; the one holding `lo' for an empty request
TagSpan(segs, lo, hi) ==
  LET L == TotalLen(segs) IN
  IF lo >= L THEN {}
  ELSE LET a == SegOfToken(segs, lo)
           b == SegOfToken(segs, IF hi - 1 < lo THEN lo ELSE Min(hi, L) - 1)
       IN a..b
TagBytes(tr, span) == UNION {Bytes(tr.lay[j].pos, 4) : j \in span}

WindowBounds(L, st) == [lo |-> st.off, hi |-> IF st.len = NoneV THEN L ELSE Min(L, st.off + st.len)]

\* the window a slice needs (TdmsChannel._read_slice normalises start / stop / step as Python does; a reversed slice
\* needs the values between its two ends, not the channel from its beginning)
SliceBounds(L, st) ==
  LET step == IF st.step = NoneV THEN 1 ELSE st.step
      s1 == IF st.start = NoneV THEN (IF step > 0 THEN 0 ELSE -1) ELSE st.start
      e1 == IF st.stop = NoneV THEN (IF step > 0 THEN L ELSE -1 - L) ELSE st.stop
      s2 == IF s1 < 0 THEN L + s1 ELSE s1
      e2 == IF e1 < 0 THEN L + e1 ELSE e1
      none == [lo |-> 0, hi |-> 0, empty |-> TRUE]
  IN IF L = 0 \/ e2 = s2 THEN none
     ELSE IF step > 0 /\ (e2 < s2 \/ s2 >= L \/ e2 < 0) THEN none
     ELSE IF step < 0 /\ (e2 > s2 \/ e2 >= L \/ s2 < 0) THEN none
     ELSE LET s3 == IF s2 < 0 THEN 0 ELSE s2
              s4 == IF s3 >= L THEN L - 1 ELSE s3
              e3 == IF e2 > L THEN L ELSE e2
              e4 == IF e3 < -1 THEN -1 ELSE e3
          IN IF step > 0 THEN [lo |-> s4, hi |-> e4, empty |-> FALSE] ELSE [lo |-> e4 + 1, hi |-> s4 + 1, empty |-> FALSE]

StepOK(tr, st, prevChunk) ==
  LET segs == tr.segs  L == TotalLen(segs) IN
  CASE st.kind = "slice" ->
         LET b == SliceBounds(L, st) IN
         IF b.empty THEN st.reads = <<>>
         ELSE ReadBytes(st.reads) \subseteq Region(tr, Overlapping(segs, b.lo, b.hi)) \cup TagBytes(tr, TagSpan(segs, b.lo, b.hi))
    [] st.kind = "window" ->
         LET b == WindowBounds(L, st) IN
         ReadBytes(st.reads) \subseteq Region(tr, Overlapping(segs, b.lo, b.hi)) \cup TagBytes(tr, TagSpan(segs, b.lo, b.hi))
    [] st.kind = "index" ->
         LET i == IF st.i < 0 THEN L + st.i ELSE st.i IN
         IF i < 0 \/ i >= L THEN st.reads = <<>>
         ELSE IF prevChunk # <<>> /\ Overlapping(segs, i, i + 1) = {prevChunk} THEN st.reads = <<>>    \* cached chunk
         ELSE ReadBytes(st.reads) \subseteq Region(tr, Overlapping(segs, i, i + 1)) \cup TagBytes(tr, TagSpan(segs, i, i + 1))

\* the chunk the one-chunk cache holds after a step
CachedAfter(tr, st, prevChunk) ==
  IF st.kind # "index" THEN prevChunk
  ELSE LET L == TotalLen(tr.segs)  i == IF st.i < 0 THEN L + st.i ELSE st.i IN
       IF i < 0 \/ i >= L THEN prevChunk ELSE CHOOSE c \in Overlapping(tr.segs, i, i + 1) : TRUE

\* REFINEMENT (diagnostic, never a verdict): the chunk selection the implementation logged through the NPTDMS_VERIF
\* hook (per segment: chunk_offset, num_chunks) against the algorithm model's fetch set
ImplFetch(st) == UNION {{<<st.impl[i][1], st.impl[i][2] + q>> : q \in 0..(st.impl[i][3] - 1)} : i \in DOMAIN st.impl}
StepRefines(tr, st) ==
  st.kind # "window" \/ (st.hooked /\ ImplFetch(st) = AlgWindow(tr.segs, tr.il, st.off, st.len).fetch)

TInit == tid \in DOMAIN Traces /\ l = 1 /\ cache = <<>> /\ ref = TRUE
\* a step marked `fresh' is served by a file opened for it alone: nothing is cached
Prev(st) == IF st.fresh THEN <<>> ELSE cache
TStep == /\ l <= Len(Tr.steps)
         /\ StepOK(Tr, Tr.steps[l], Prev(Tr.steps[l]))
         /\ cache' = CachedAfter(Tr, Tr.steps[l], Prev(Tr.steps[l]))          \* the channel's one-chunk cache
         /\ ref' = (ref /\ StepRefines(Tr, Tr.steps[l]))
         /\ l' = l + 1 /\ UNCHANGED tid
TSpec == TInit /\ [][TStep]_tvars

\* every trace consumed to its end prints ACCEPT; ids not printed are rejected (the harness re-runs those
\* with Verbose to learn the first step that does not match)
Accepted == (l = Len(Tr.steps) + 1) => PrintT(<<"ACCEPT", Tr.id>>)
Refined == (l = Len(Tr.steps) + 1 /\ ref) => PrintT(<<"REFINED", Tr.id>>)
Progress == Verbose => PrintT(<<"AT", Tr.id, l>>)
=============================================================================
