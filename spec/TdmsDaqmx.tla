------------------------------ MODULE TdmsDaqmx ------------------------------
(***************************************************************************)
(* DAQmx raw data (DESIGN.md 3.8): C11.  A segment holds raw buffers, one  *)
(* per acquisition card, written one after another in every chunk; buffer  *)
(* b has rows[b] rows of widths[b] bytes.  A channel has scalers, each     *)
(* living in one buffer at a byte offset (format-changing scalers) or bit  *)
(* offset (digital-line scalers) with a fixed-width type.  The             *)
(* specification says WHERE every raw value lies; the harness reads the    *)
(* bytes found there with the scaler's type and byte order.                *)
(***************************************************************************)
EXTENDS Integers, Sequences, FiniteSets, TLC, Json

CONSTANTS
  Kinds,        \* subset of {"fc", "dl"}
  WidthSet, RowSet, KSet, Orders,
  NBufs,        \* numbers of raw buffers explored, e.g. {1, 2}
  MaxChans,
  OffSet,       \* byte offsets (fc) / bit offsets (dl) explored
  SizeSet,      \* scaler type sizes in bytes
  Split,        \* BOOLEAN: also channels whose two scalers live in different raw buffers (of equal length)
  GenPrint

VARIABLES cfg
vars == <<cfg>>

RECURSIVE SumF(_, _)
SumF(f, n) == IF n = 0 THEN 0 ELSE f[n] + SumF(f, n - 1)
Sum(s) == SumF(s, Len(s))

ByteOff(kind, off) == IF kind = "dl" THEN off \div 8 ELSE off
Fits(kind, sc, w) == ByteOff(kind, sc.off) + sc.sz <= w

\* a channel: [buf, scalers]; every scaler names its raw buffer (`buf' of the channel = buffer of its first scaler).
\* Two scalers share a buffer (at increasing offsets) or, with Split, lie in two different buffers of equal length.
ScalerSet == [off : OffSet, sz : SizeSet]
FitSet(kind, w) == {t \in ScalerSet : Fits(kind, t, w)}
In(b, t) == [off |-> t.off, sz |-> t.sz, buf |-> b]
ChanChoices(kind, widths) ==
  UNION {{[buf |-> b, scalers |-> <<In(b, s)>>] : s \in FitSet(kind, widths[b])}
         \cup {[buf |-> b, scalers |-> <<In(b, s), In(b, t)>>] : s \in FitSet(kind, widths[b]), t \in FitSet(kind, widths[b])}
         \cup (IF Split THEN UNION {{[buf |-> b, scalers |-> <<In(b, s), In(b2, t)>>] :
                                        s \in FitSet(kind, widths[b]), t \in FitSet(kind, widths[b2])}
                                     : b2 \in DOMAIN widths \ {b}}
                ELSE {})
         : b \in DOMAIN widths}

RECURSIVE SeqsOf(_, _)
SeqsOf(S, n) == IF n = 0 THEN {<<>>} ELSE {Append(s, x) : s \in SeqsOf(S, n - 1), x \in S}

Bufs(ch) == {ch.scalers[s].buf : s \in DOMAIN ch.scalers}
WellFormed(c) ==
  /\ \A i \in DOMAIN c.chans : Len(c.chans[i].scalers) = 2 =>
        LET a == c.chans[i].scalers[1]  z == c.chans[i].scalers[2] IN
        IF a.buf = z.buf THEN a.off < z.off ELSE c.rows[a.buf] = c.rows[z.buf]     \* one length per channel
  /\ \A b \in DOMAIN c.widths : \E i \in DOMAIN c.chans : b \in Bufs(c.chans[i])   \* every buffer is used

Configs ==
  {c \in UNION {[kind : {kd}, be : {o = "be"}, k : KSet, widths : {ws}, rows : SeqsOf(RowSet, Len(ws)),
                 chans : UNION {SeqsOf(ChanChoices(kd, ws), m) : m \in 1..MaxChans}] :
                  kd \in Kinds, o \in Orders, ws \in UNION {SeqsOf(WidthSet, nb) : nb \in NBufs}} : WellFormed(c)}

(* ------------------------------- layout -------------------------------- *)
ChunkBytes(c) == Sum([b \in DOMAIN c.widths |-> c.rows[b] * c.widths[b]])
BufBase(c, b) == Sum([m \in 1..(b - 1) |-> c.rows[m] * c.widths[m]])
\* position (relative to the start of the segment's raw data) of the value of scaler sc of a channel in buffer b,
\* chunk q (0-based), row r (0-based)
ScalerPos(c, b, sc, q, r) == q * ChunkBytes(c) + BufBase(c, b) + r * c.widths[b] + ByteOff(c.kind, sc.off)

Positions(c, i, s) ==     \* all values of scaler s of channel i in file order
  LET ch == c.chans[i]  b == ch.scalers[s].buf  n == c.rows[b] IN
  [v \in 1..(c.k * n) |-> ScalerPos(c, b, ch.scalers[s], (v - 1) \div n, (v - 1) % n)]

\* truncated final chunk of `rem' bytes: buffers whole while the remainder exceeds them, the first short one keeps
\* its complete rows, later ones nothing (get_daqmx_final_chunk_lengths)
RECURSIVE TruncRowsFrom(_, _, _)
TruncRowsFrom(c, b, rem) ==
  IF b > Len(c.widths) THEN <<>>
  ELSE LET full == c.rows[b] * c.widths[b] IN
       IF rem > full THEN <<c.rows[b]>> \o TruncRowsFrom(c, b + 1, rem - full)
       ELSE <<rem \div c.widths[b]>> \o [m \in 1..(Len(c.widths) - b) |-> 0]
TruncRows(c, rem) == TruncRowsFrom(c, 1, rem)

(* ------------------------------ behaviour ------------------------------- *)
Init == cfg \in Configs
Next == UNCHANGED cfg
Spec == Init /\ [][Next]_vars

\* every scaler value lies inside its buffer row, hence inside the chunk
InBounds ==
  \A i \in DOMAIN cfg.chans : \A s \in DOMAIN cfg.chans[i].scalers :
     LET ch == cfg.chans[i]  sc == ch.scalers[s] IN
     /\ ByteOff(cfg.kind, sc.off) + sc.sz <= cfg.widths[sc.buf]
     /\ \A v \in DOMAIN Positions(cfg, i, s) : Positions(cfg, i, s)[v] + sc.sz <= cfg.k * ChunkBytes(cfg)
\* a truncated final chunk yields complete rows only, never more than the full chunk has
TruncOK == \A rem \in 1..(ChunkBytes(cfg) - 1) :
   \A b \in DOMAIN cfg.widths : /\ TruncRows(cfg, rem)[b] <= cfg.rows[b]
                                /\ BufBase(cfg, b) + TruncRows(cfg, rem)[b] * cfg.widths[b] <= rem
                                   \/ TruncRows(cfg, rem)[b] = 0

GenCase == GenPrint =>
  PrintT(<<"GEN", ToJson([cfg |-> cfg, chunkBytes |-> ChunkBytes(cfg),
                          pos |-> [i \in DOMAIN cfg.chans |-> [s \in DOMAIN cfg.chans[i].scalers |-> Positions(cfg, i, s)]],
                          trunc |-> [rem \in 1..(ChunkBytes(cfg) - 1) |-> TruncRows(cfg, rem)]])>>)
=============================================================================
