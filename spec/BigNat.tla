-------------------------------- MODULE BigNat --------------------------------
(* Natural numbers beyond TLC's 32-bit integers: little-endian sequences of limbs in base 10^4 (no leading zero
   limbs; zero is <<>>).  Only what TdmsTime needs: comparison, addition, multiplication, division by 2^64 via
   comparison of products. *)
EXTENDS Integers, Sequences

Base == 10000

RECURSIVE Norm(_)
Norm(a) == IF a = <<>> THEN <<>> ELSE IF a[Len(a)] = 0 THEN Norm(SubSeq(a, 1, Len(a) - 1)) ELSE a

Limb(a, i) == IF i <= Len(a) THEN a[i] ELSE 0
MaxI(x, y) == IF x > y THEN x ELSE y

RECURSIVE AddC(_, _, _, _)
AddC(a, b, i, carry) ==
  IF i > MaxI(Len(a), Len(b)) THEN (IF carry = 0 THEN <<>> ELSE <<carry>>)
  ELSE LET t == Limb(a, i) + Limb(b, i) + carry IN <<t % Base>> \o AddC(a, b, i + 1, t \div Base)
Add(a, b) == Norm(AddC(a, b, 1, 0))

RECURSIVE MulLimbC(_, _, _, _)
MulLimbC(a, m, i, carry) ==        \* a * m for 0 <= m < Base
  IF i > Len(a) THEN (IF carry = 0 THEN <<>> ELSE <<carry>>)
  ELSE LET t == a[i] * m + carry IN <<t % Base>> \o MulLimbC(a, m, i + 1, t \div Base)
MulLimb(a, m) == Norm(MulLimbC(a, m, 1, 0))

Shift(a, k) == IF a = <<>> THEN <<>> ELSE [i \in 1..k |-> 0] \o a      \* a * Base^k

RECURSIVE MulFrom(_, _, _)
MulFrom(a, b, j) == IF j > Len(b) THEN <<>> ELSE Add(Shift(MulLimb(a, b[j]), j - 1), MulFrom(a, b, j + 1))
Mul(a, b) == MulFrom(a, b, 1)

RECURSIVE CmpFrom(_, _, _)
CmpFrom(a, b, i) == IF i = 0 THEN 0 ELSE IF a[i] < b[i] THEN -1 ELSE IF a[i] > b[i] THEN 1 ELSE CmpFrom(a, b, i - 1)
Cmp(a, b) == IF Len(a) < Len(b) THEN -1 ELSE IF Len(a) > Len(b) THEN 1 ELSE CmpFrom(a, b, Len(a))
Le(a, b) == Cmp(a, b) <= 0
Lt(a, b) == Cmp(a, b) < 0

RECURSIVE OfInt(_)
OfInt(n) == IF n = 0 THEN <<>> ELSE <<n % Base>> \o OfInt(n \div Base)     \* for 0 <= n < 2^31

One == <<1>>
TwoTo64 == <<1616, 955, 737, 6744, 1844>>           \* 18446744073709551616
=============================================================================
