SPECIFICATION TSpec
CONSTANTS
  Alphabet = {"a"}
  MaxLen = 0
  GenPrint = FALSE
  Verbose = FALSE
INVARIANT Accepted
INVARIANT Progress
CHECK_DEADLOCK FALSE
