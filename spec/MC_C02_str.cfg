SPECIFICATION Spec
CONSTANTS
  Paths <- c_Paths
  Chans <- c_Chans
  Groups <- c_Groups
  GroupOf <- c_GroupOf
  ObjLists <- c_ObjListsStr
  TypeSet <- c_TypeSetStr
  Width <- c_WidthStr
  Unsized <- c_UnsizedStr
  MaxSegs = 2
  NVals = {1, 2}
  KVals = {1, 2}
  SVals = {0, 1}
  Inherit = TRUE
  Layouts <- c_Layouts
  Orders <- c_Orders
  PropNames <- c_PropNames
  PropVals <- c_PropVals
  MaxPropObjs = 0
  Forbidden = {}
  GenPrint = FALSE
INVARIANT TypeOK
INVARIANT ViewsAgree
INVARIANT ForbiddenRejected
INVARIANT ChunksConsistent
INVARIANT GenCase
CHECK_DEADLOCK FALSE
