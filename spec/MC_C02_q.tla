---- MODULE MC_C02_q ----
(* C02 quick: two channels in one (undeclared) group, every valid encoding, 2 segments *)
EXTENDS TdmsSegments
A == "/'g'/'a'"
B == "/'g'/'b'"
c_Paths == {A, B}
c_Chans == {A, B}
c_Groups == {}
c_GroupOf == [c \in {A, B} |-> "/'g'"]
c_ObjLists == {<<>>, <<A>>, <<B>>, <<A, B>>, <<B, A>>}
c_TypeSet == {"Int32"}
c_Width == [t \in {"Int32"} |-> 4]
c_Unsized == {}
c_NVals == {0, 1, 2}
c_KVals == {1, 2}
c_Layouts == {"contig"}
c_Orders == {"le"}
c_PropNames == {}
c_PropVals == {}
c_Forbidden == {"nometa-first", "same-unseen", "type-change"}
\* string slice: the byte size in a string channel's index may change while the value count stays the same
c_TypeSetStr == {"String"}
c_WidthStr == [t \in {"String"} |-> 6]
c_UnsizedStr == {"String"}
c_ObjListsStr == {<<A>>, <<A, B>>, <<B, A>>}
\* type-change slice: a channel restated with another type must be rejected, whatever the two types are (types
\* without a NumPy counterpart, a float type and its with-unit twin)
c_TypeSetTC == {"String", "TimeStamp", "DoubleFloat", "DoubleFloatWithUnit", "Int32"}
c_WidthTC == [t \in c_TypeSetTC |-> CASE t = "String" -> 6 [] t = "TimeStamp" -> 16 [] t = "Int32" -> 4 [] OTHER -> 8]
c_ForbiddenTC == {"type-change"}
====
