SPECIFICATION TSpec
CONSTANTS
  Paths = {}
  Chans = {}
  Groups = {}
  GroupOf = {}
  ObjLists = {}
  TypeSet = {}
  Width = {}
  Unsized = {"String"}
  MaxSegs = 0
  NVals = {}
  KVals = {}
  SVals = {0}
  Inherit = FALSE
  Layouts = {}
  Orders = {}
  PropNames = {}
  PropVals = {}
  MaxPropObjs = 0
  Forbidden = {}
  GenPrint = FALSE
  Verbose = FALSE
INVARIANT Accepted
INVARIANT Refined
INVARIANT Progress
CHECK_DEADLOCK FALSE
