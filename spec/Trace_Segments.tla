---------------------------- MODULE Trace_Segments ----------------------------
(***************************************************************************)
(* C01 / C02, code -> spec.  A trace is a real TDMS file (the repository's *)
(* hand-written scenario files, its bundled LabVIEW files, or any other    *)
(* file) turned into the ENCODED form of TdmsSegments by the independent   *)
(* structural parser (one step per segment: ToC flags, listed objects with *)
(* index kind / type / count / byte size, property updates, raw data       *)
(* bytes), together with what TdmsFile.read observed.  The reader model of *)
(* TdmsSegments (ReadSegP, the same operator the model checker explores)   *)
(* is run over the segments; the trace is accepted iff the model's final   *)
(* lengths, types, groups, channel order and properties equal the          *)
(* observation (or both reject the file).                                  *)
(***************************************************************************)
EXTENDS TdmsSegments, IOUtils

CONSTANT Verbose
Traces == ndJsonDeserialize(IOEnv.TRACE_FILE)

VARIABLES tid, l, rst, ref
tvars == <<tid, l, rst, ref, file, expl, ty, status>>
Tr == Traces[tid]

SetOf(s) == {s[i] : i \in DOMAIN s}
PS(tr) == SetOf(tr.paths)
PairsOf(s) == {<<s[i][1], s[i][2]>> : i \in DOMAIN s}
FunPairs(f) == {<<x, f[x]>> : x \in DOMAIN f}

Matches(tr, st) ==
  IF st.partial THEN tr.obs.partial  \* a partial final chunk is C06's subject (TdmsTruncate): only its presence is matched
  ELSE IF tr.obs.error THEN st.err
  ELSE
  /\ ~st.err
  /\ LET CH == SetOf(tr.chans)
         GO == [c \in CH |-> (CHOOSE q \in PairsOf(tr.parents) : q[1] = c)[2]]
         v == MkViewP(CH, SetOf(tr.groups), GO, st.order, st.len, st.mty, st.props)
     IN /\ v.groups = tr.obs.groups
        /\ \A i \in DOMAIN tr.obs.gchans : v.gchans[tr.obs.gchans[i][1]] = tr.obs.gchans[i][2]
        /\ FunPairs(v.len) = PairsOf(tr.obs.len)
        /\ FunPairs(v.ty) = PairsOf(tr.obs.ty)
        /\ \A i \in DOMAIN tr.obs.props :
             LET p == tr.obs.props[i][1] IN
             IF p \in DOMAIN v.props THEN FunPairs(v.props[p]) = PairsOf(tr.obs.props[i][2])
             ELSE tr.obs.props[i][2] = <<>>        \* the root / an implied group never named in the file: no properties

\* REFINEMENT (diagnostic, never a verdict): with the hooks on, the implementation logs for every segment its
\* effective object list [path, has_data, number_values] and its chunk count; the model's step must produce the same
StepRefines(im, st, n) ==
  /\ ~st.err /\ Len(st.lists) = n
  /\ st.ks[n] = im.num_chunks
  /\ Len(st.lists[n]) = Len(im.objects)
  /\ \A i \in DOMAIN im.objects :
       /\ st.lists[n][i].p = im.objects[i][1]
       /\ st.lists[n][i].has = im.objects[i][2]
       /\ (st.lists[n][i].has => st.lists[n][i].n = im.objects[i][3])

TInit == /\ tid \in DOMAIN Traces /\ l = 1 /\ rst = RInitP(PS(Traces[tid])) /\ ref = TRUE
         /\ file = <<>> /\ expl = <<>> /\ ty = <<>> /\ status = "ok"
TStep == /\ l <= Len(Tr.file)
         /\ rst' = ReadSegP(PS(Tr), rst, Tr.file[l])
         /\ ref' = (ref /\ l <= Len(Tr.impl) /\ StepRefines(Tr.impl[l], rst', l))
         /\ l' = l + 1 /\ UNCHANGED <<tid, file, expl, ty, status>>
TSpec == TInit /\ [][TStep]_tvars

Accepted == (l = Len(Tr.file) + 1 /\ Matches(Tr, rst)) => PrintT(<<"ACCEPT", Tr.id>>)
Refined == (l = Len(Tr.file) + 1 /\ ref /\ Len(Tr.impl) = Len(Tr.file)) => PrintT(<<"REFINED", Tr.id>>)
Progress == Verbose => PrintT(<<"AT", Tr.id, l>>)
=============================================================================
