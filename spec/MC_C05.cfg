SPECIFICATION Spec
CONSTANTS
  Shapes2 <- c_Quick
  MaxIters = 2
  Dense = FALSE
  SharedCursorBug = FALSE
  MaxHist = 0
  GenPrint = FALSE
  StaleIndex = FALSE
  ExactFinalChunk = TRUE
  ZeroLenSlice = FALSE
VIEW HiddenState
INVARIANT PathsAgree
PROPERTY HistoryIndependentAct
CHECK_DEADLOCK FALSE
