---------------------------- MODULE TdmsDataOps ------------------------------
(***************************************************************************)
(* Getting data out of a lazily opened file (DESIGN.md 3.4): C04, C19,     *)
(* and the vocabulary reused by C03/C05.                                   *)
(*                                                                         *)
(* A SHAPE describes how the channel under test X is spread over the file: *)
(* per segment whether X has data there, its values per chunk n, the       *)
(* number of chunks k and the number of X values in the final chunk        *)
(* (last < n only for a truncated last segment).  The channel's data is    *)
(* the token sequence 0..L-1 in file order.                                *)
(*                                                                         *)
(* For every operation there is                                            *)
(*   - an ABSTRACT RESULT written from Python/NumPy's indexing semantics,   *)
(*   - an ALGORITHM MODEL mirroring TdmsReader.read_raw_data_for_channel,  *)
(*     read_channel_chunk_for_index and TdmsChannel._read_slice step by    *)
(*     step, and                                                           *)
(*   - a FOOTPRINT (which chunks may be fetched).                          *)
(* TLC checks algorithm = abstract for all shapes and requests; the        *)
(* implementation is bound to the abstract results (GEN) and to the        *)
(* footprint (TRACE, module Trace_Footprint).                              *)
(***************************************************************************)
EXTENDS Integers, Sequences, FiniteSets, TLC, Json

CONSTANTS
  StaleIndex,   \* TRUE models the pinned reader.py (segment_index not advanced when the channel is absent): defect D3
  ExactFinalChunk, \* FALSE models the pinned guess of the final chunk's size from the value count (over-fetch / error
                \* when the truncated final chunk holds no value of the channel: defect D16); TRUE: the recorded size
  ZeroLenSlice  \* TRUE models the pinned _read_slice on zero-length channels: defect D10

NoneV == -1000          \* Python's None for offsets / lengths / slice fields
Bad == -1               \* a value that is not a token of the channel (invented / garbage data)

Vals(s) == IF s.pres THEN s.n * (s.k - 1) + s.last ELSE 0

RECURSIVE SumVals(_, _)
SumVals(segs, i) == IF i = 0 THEN 0 ELSE Vals(segs[i]) + SumVals(segs, i - 1)
TotalLen(segs) == SumVals(segs, Len(segs))
Base(segs, j) == SumVals(segs, j - 1)             \* token index of the first X value of segment j

Min(a, b) == IF a < b THEN a ELSE b
Max(a, b) == IF a > b THEN a ELSE b
Range(a, b) == [i \in 1..Max(0, b - a) |-> a + i - 1]     \* tokens a .. b-1 as a sequence

\* chunks of X in file order: <<segment, chunk index (0-based), first token, count>>
RECURSIVE ChunkSeq(_, _)
ChunkSeq(segs, j) ==
  IF j = 0 THEN <<>>
  ELSE ChunkSeq(segs, j - 1) \o
       (IF ~segs[j].pres THEN <<>>
        ELSE [c \in 1..segs[j].k |-> [seg |-> j, chunk |-> c - 1,
                                      first |-> Base(segs, j) + (c - 1) * segs[j].n,
                                      count |-> IF c = segs[j].k THEN segs[j].last ELSE segs[j].n]])
Chunks(segs) == ChunkSeq(segs, Len(segs))

(* --------------------------- abstract results --------------------------- *)
\* every result is a record: err = "" and the delivered token sequence, or the name of the exception raised
R(v) == [err |-> "", vals |-> v]
E(e) == [err |-> e, vals |-> <<>>]
\* read_data(offset, length) = full[offset : offset + length]        (offset >= 0, length >= 0 or None)
AbsWindow(L, off, len) ==
  LET stop == IF len = NoneV THEN L ELSE Min(L, off + len) IN R(Range(Min(off, L), Max(Min(off, L), stop)))

\* Python's slice.indices(L) followed by range(start, stop, step)
SliceIndices(L, start, stop, step) ==
  LET st == IF step = NoneV THEN 1 ELSE step
      lower == IF st < 0 THEN -1 ELSE 0
      upper == IF st < 0 THEN L - 1 ELSE L
      norm(v, dflt) == IF v = NoneV THEN dflt
                       ELSE IF v < 0 THEN Max(v + L, lower) ELSE Min(v, upper)
  IN [start |-> norm(start, IF st < 0 THEN upper ELSE lower),
      stop  |-> norm(stop, IF st < 0 THEN lower ELSE upper),
      step  |-> st]

RECURSIVE RangeSeq(_, _, _)
RangeSeq(a, b, st) == IF (st > 0 /\ a >= b) \/ (st < 0 /\ a <= b) THEN <<>> ELSE <<a>> \o RangeSeq(a + st, b, st)

AbsSlice(L, start, stop, step) ==
  IF step = 0 THEN E("ValueError")
  ELSE LET ix == SliceIndices(L, start, stop, step) IN R(RangeSeq(ix.start, ix.stop, ix.step))

AbsIndex(L, i) == IF i >= L \/ i < -L THEN E("IndexError") ELSE R(<<IF i < 0 THEN L + i ELSE i>>)

(* ------------------- algorithm model: read_raw_data_for_channel --------- *)
FirstSeg(segs) == IF \A j \in DOMAIN segs : Vals(segs[j]) = 0 THEN Len(segs) + 1
                  ELSE CHOOSE j \in DOMAIN segs : Vals(segs[j]) > 0 /\ \A i \in 1..(j - 1) : Vals(segs[i]) = 0
LastSeg(segs) == IF \A j \in DOMAIN segs : Vals(segs[j]) = 0 THEN Len(segs) + 1
                 ELSE CHOOSE j \in DOMAIN segs : Vals(segs[j]) > 0 /\ \A i \in (j + 1)..Len(segs) : Vals(segs[i]) = 0
\* cumulative value count at the end of each segment first..last (_build_index)
Offs(segs) == LET f == FirstSeg(segs) l == LastSeg(segs) IN
              IF f > Len(segs) THEN <<>> ELSE [m \in 1..(l - f + 1) |-> SumVals(segs, f + m - 1)]

PySlice(s, a, b) ==        \* s[a:b] with Python's treatment of negative bounds
  LET n == Len(s)
      a2 == IF a < 0 THEN Max(0, a + n) ELSE Min(a, n)
      b2 == IF b < 0 THEN Max(0, b + n) ELSE Min(b, n)
  IN IF b2 <= a2 THEN <<>> ELSE SubSeq(s, a2 + 1, b2)

\* X's values in chunk c0 (0-based) of segment j; beyond the segment's chunks lies data that is not X's
ChunkTokens(segs, j, c0) ==
  LET s == segs[j] IN
  IF c0 < 0 \/ c0 >= s.k THEN [i \in 1..s.n |-> Bad]
  ELSE Range(Base(segs, j) + c0 * s.n, Base(segs, j) + c0 * s.n + (IF c0 = s.k - 1 THEN s.last ELSE s.n))

RECURSIVE ConcatChunks(_, _, _, _)
ConcatChunks(segs, j, c0, nc) == IF nc <= 0 THEN <<>> ELSE ChunkTokens(segs, j, c0) \o ConcatChunks(segs, j, c0 + 1, nc - 1)

\* the per-chunk loop of read_raw_data_for_channel: skip on the first chunk, trim once `length' values were read
RECURSIVE YieldChunks(_, _, _, _, _)
YieldChunks(chunks, i, skip0, length, acc) ==      \* acc = [vr |-> values_read, out |-> seq]
  IF i > Len(chunks) THEN acc
  ELSE LET ch == chunks[i]
           skip == IF i = 1 THEN skip0 ELSE 0
           vr == acc.vr + Len(ch) - skip
           trim == IF vr < length THEN 0 ELSE vr - length
           part == IF skip = 0 /\ trim = 0 THEN ch ELSE PySlice(ch, skip, Len(ch) - trim)
       IN YieldChunks(chunks, i + 1, skip0, length, [vr |-> vr, out |-> acc.out \o part])

RECURSIVE SegLoop(_, _, _, _, _, _, _)
SegLoop(segs, il, j, jEnd, si, ctx, acc) ==        \* j: actual segment visited; si: the code's segment_index
  IF j > jEnd \/ acc.err THEN acc
  ELSE
  LET s == segs[j] IN
  IF ~s.pres \/ s.n = 0
  THEN SegLoop(segs, il, j + 1, jEnd, IF StaleIndex THEN si ELSE si + 1, ctx, acc)           \* `continue'
  ELSE
  LET offs == ctx.offs  first == ctx.first  M == Len(offs)
      startIdxOK == si = first \/ (si - first >= 1 /\ si - first <= M)
      segStart == IF si = first THEN 0 ELSE offs[si - first]
      isStart == si = ctx.startSeg
      isEnd == si = ctx.endSeg
      toSkip == ctx.off - segStart
      chunkOffset == IF isStart THEN toSkip \div s.n ELSE 0
      remSkip == IF isStart THEN toSkip % s.n ELSE 0
      nc0 == s.k - chunkOffset
      endIdxOK == ~isEnd \/ (si - first + 1 >= 1 /\ si - first + 1 <= M)
      segEnd == offs[si - first + 1]
      toTrim == segEnd - ctx.endIndex
      fcs0 == (segEnd - segStart) % s.n
      fcs == IF ExactFinalChunk THEN s.last ELSE IF fcs0 = 0 THEN s.n ELSE fcs0
      nc == IF ~isEnd THEN nc0
            ELSE IF toTrim >= fcs THEN (nc0 - 1) - ((toTrim - fcs) \div s.n) ELSE nc0 - (toTrim \div s.n)
  IN IF ~startIdxOK \/ ~endIdxOK THEN [acc EXCEPT !.err = TRUE]
     ELSE
     LET chunks == IF nc <= 0 THEN <<>>
                   ELSE IF il THEN <<ConcatChunks(segs, j, chunkOffset, nc)>>     \* interleaved: one block
                   ELSE [c \in 1..nc |-> ChunkTokens(segs, j, chunkOffset + c - 1)]
         y == YieldChunks(chunks, 1, remSkip, ctx.length, [vr |-> acc.vr, out |-> acc.out])
         fetched == IF nc <= 0 THEN {} ELSE {<<j, chunkOffset + c - 1>> : c \in 1..nc}
     IN SegLoop(segs, il, j + 1, jEnd, si + 1, ctx,
                [vr |-> y.vr, out |-> y.out, err |-> FALSE, fetch |-> acc.fetch \cup fetched,
                 tags |-> acc.tags])

AlgWindow(segs, il, off, len) ==
  IF off < 0 \/ (len # NoneV /\ len < 0) THEN [err |-> "ValueError", out |-> <<>>, alloc |-> 0, fetch |-> {}, tags |-> {}]
  ELSE
  LET L == TotalLen(segs)
      maxFrom == L - off
      length == IF len = NoneV THEN maxFrom ELSE Min(len, maxFrom)
      endIndex == off + length
      offs == Offs(segs)
      first == FirstSeg(segs)
      startSeg == first + Cardinality({m \in DOMAIN offs : offs[m] <= off})          \* searchsorted side='right'
      endSeg == first + Cardinality({m \in DOMAIN offs : offs[m] < endIndex})        \* searchsorted side='left'
      alloc == Max(0, IF len = NoneV THEN L - off ELSE Min(len, L - off))
      ctx == [off |-> off, length |-> length, endIndex |-> endIndex, offs |-> offs, first |-> first,
              startSeg |-> startSeg, endSeg |-> endSeg]
      r == SegLoop(segs, il, startSeg, Min(endSeg, Len(segs)), startSeg, ctx,
                   [vr |-> 0, out |-> <<>>, err |-> FALSE, fetch |-> {},
                    tags |-> {j \in startSeg..Min(endSeg, Len(segs)) : TRUE}])
  IN IF r.err THEN [err |-> "IndexError", out |-> <<>>, alloc |-> alloc, fetch |-> r.fetch, tags |-> r.tags]
     ELSE [err |-> "", out |-> r.out, alloc |-> alloc, fetch |-> r.fetch, tags |-> r.tags]

\* what the caller sees: the receiver array has `alloc' slots; more values do not fit, fewer leave invented zeros
Delivered(a) ==
  IF a.err # "" THEN E(a.err)
  ELSE IF Len(a.out) = a.alloc THEN R(a.out)
  ELSE IF Len(a.out) < a.alloc THEN R(a.out \o [i \in 1..(a.alloc - Len(a.out)) |-> Bad])
  ELSE E("BroadcastError")

(* ------------------- algorithm model: TdmsChannel._read_slice ----------- *)
AlgSlice(segs, il, start0, stop0, step0) ==
  LET L == TotalLen(segs) IN
  IF step0 = 0 THEN E("ValueError") ELSE
  LET step == IF step0 = NoneV THEN 1 ELSE step0
      s1 == IF start0 = NoneV THEN (IF step > 0 THEN 0 ELSE -1) ELSE start0
      e1 == IF stop0 = NoneV THEN (IF step > 0 THEN L ELSE -1 - L) ELSE stop0
      s2 == IF s1 < 0 THEN L + s1 ELSE s1
      e2 == IF e1 < 0 THEN L + e1 ELSE e1
  IN IF (~ZeroLenSlice /\ L = 0) \/ e2 = s2 THEN R(<<>>)
     ELSE IF step > 0 /\ (e2 < s2 \/ s2 >= L \/ e2 < 0) THEN R(<<>>)
     ELSE IF step < 0 /\ (e2 > s2 \/ e2 >= L \/ s2 < 0) THEN R(<<>>)
     ELSE
     LET s3 == IF s2 < 0 THEN 0 ELSE s2
         s4 == IF s3 >= L THEN L - 1 ELSE s3
         e3 == IF e2 > L THEN L ELSE e2
         e4 == IF e3 < -1 THEN -1 ELSE e3
     IN IF step > 0
        THEN LET d == Delivered(AlgWindow(segs, il, s4, e4 - s4)) IN
             IF d.err # "" THEN d ELSE R([i \in 1..((Len(d.vals) + step - 1) \div step) |-> d.vals[(i - 1) * step + 1]])
        ELSE LET d == Delivered(AlgWindow(segs, il, e4 + 1, s4 - e4)) IN
             IF d.err # "" THEN d
             ELSE LET m == -step IN R([i \in 1..((Len(d.vals) + m - 1) \div m) |-> d.vals[Len(d.vals) - (i - 1) * m]])

(* ------------- algorithm model: read_channel_chunk_for_index ------------ *)
AlgIndex(segs, i0) ==
  LET L == TotalLen(segs)
      i == IF i0 < 0 THEN L + i0 ELSE i0
  IN IF i < 0 \/ i >= L THEN [out |-> E("IndexError"), chunk |-> <<0, 0>>]
     ELSE
     LET offs == Offs(segs)
         first == FirstSeg(segs)
         si == first + Cardinality({m \in DOMAIN offs : offs[m] <= i})
         s == segs[si]
         segStart == IF si = first THEN 0 ELSE offs[si - first]
         ci == (i - segStart) \div s.n
         ch == ChunkTokens(segs, si, ci)
         chunkOff == segStart + ci * s.n
     IN [out |-> R(<<ch[i - chunkOff + 1]>>), chunk |-> <<si, ci>>]

(* ------------------------------ footprint ------------------------------- *)
\* chunks (segment, 0-based chunk) holding at least one token of [lo, hi)
Overlapping(segs, lo, hi) ==
  LET cs == Chunks(segs) IN
  {<<cs[c].seg, cs[c].chunk>> : c \in {d \in DOMAIN cs : cs[d].count > 0 /\ cs[d].first < hi /\ cs[d].first + cs[d].count > lo}}

\* a fetched chunk that holds no value of X (truncated final chunk) transfers no bytes
NonEmptyChunk(segs, c) == LET s == segs[c[1]] IN c[2] < s.k /\ (c[2] = s.k - 1 => s.last > 0)

AllowedWindow(segs, off, len) ==
  LET L == TotalLen(segs) IN Overlapping(segs, off, IF len = NoneV THEN L ELSE Min(L, off + len))

=============================================================================
