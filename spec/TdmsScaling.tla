------------------------------ MODULE TdmsScaling ------------------------------
(***************************************************************************)
(* NI_Scale definitions as a dataflow graph (DESIGN.md 3.11): C13, C14.    *)
(* A scaling is a sequence of scales; scale i consumes the scale named by  *)
(* its input source (an earlier index) or the raw data (RAW); the LAST     *)
(* scale is the output.  Coefficients and data are small integers, so the  *)
(* double-precision evaluation of the implementation is exact and equals   *)
(* the integer arithmetic here.  DType is the NumPy dtype of each node.    *)
(* Scaling properties are looked up on the channel, else its group, else   *)
(* the file; NI_Scaling_Status = "scaled" (or an unsupported scale type)   *)
(* disables the level it stands on.                                        *)
(***************************************************************************)
EXTENDS Integers, Sequences, FiniteSets, TLC, Json

CONSTANTS
  RawTypes,       \* numeric raw types explored
  MaxScales,
  UnaryKinds,     \* subset of {"Linear", "Polynomial", "Table", "NoOp", "Sensor"}
  BinaryKinds,    \* subset of {"Add", "Subtract"}
  Levels,         \* subset of {"channel", "group", "root"}: where the scaling properties are placed
  Shadow,         \* BOOLEAN set: also place a different, disabled or lower-priority scaling elsewhere
  DaqTypes,       \* scaler types of the DAQmx slice ({} = no DAQmx cases): channels with two raw scalers (ids 0, 1)
  MaxDaqScales,   \* further scales stacked on the two DAQmx scalers
  LongChains,     \* lengths of additional Linear chains (scale i reads scale i-1), e.g. {12}: more scales than digits
  GenPrint

VARIABLES g
vars == <<g>>

RAW == -1

(* ----------------------------- number types ----------------------------- *)
IsSigned(t) == t \in {"int8", "int16", "int32", "int64"}
IsUnsigned(t) == t \in {"uint8", "uint16", "uint32", "uint64"}
IsFloat(t) == t \in {"float32", "float64"}
Bits(t) == CASE t \in {"int8", "uint8"} -> 8 [] t \in {"int16", "uint16"} -> 16
             [] t \in {"int32", "uint32", "float32"} -> 32 [] OTHER -> 64
SignedOf(b) == CASE b = 8 -> "int8" [] b = 16 -> "int16" [] b = 32 -> "int32" [] OTHER -> "int64"
UnsignedOf(b) == CASE b = 8 -> "uint8" [] b = 16 -> "uint16" [] b = 32 -> "uint32" [] OTHER -> "uint64"
MaxN(a, b) == IF a > b THEN a ELSE b

\* numpy.result_type for two array dtypes (NumPy's promotion lattice)
ResultType(a, b) ==
  IF a = b THEN a
  ELSE IF IsFloat(a) /\ IsFloat(b) THEN "float64"
  ELSE IF IsFloat(a) \/ IsFloat(b) THEN
       LET f == IF IsFloat(a) THEN a ELSE b   i == IF IsFloat(a) THEN b ELSE a IN
       IF f = "float64" THEN "float64" ELSE IF Bits(i) <= 16 THEN "float32" ELSE "float64"
  ELSE IF IsSigned(a) = IsSigned(b) THEN (IF IsSigned(a) THEN SignedOf(MaxN(Bits(a), Bits(b))) ELSE UnsignedOf(MaxN(Bits(a), Bits(b))))
  ELSE LET s == IF IsSigned(a) THEN a ELSE b   u == IF IsSigned(a) THEN b ELSE a IN
       IF Bits(u) < Bits(s) THEN s
       ELSE IF Bits(u) = 64 THEN "float64" ELSE SignedOf(2 * Bits(u))

Pow2(n) == IF n = 8 THEN 256 ELSE IF n = 16 THEN 65536 ELSE 2000000000     \* only small data is used
InRange(v, t) == IF IsFloat(t) THEN TRUE
                 ELSE IF IsUnsigned(t) THEN v >= 0 /\ (Bits(t) > 16 \/ v < Pow2(Bits(t)))
                 ELSE (Bits(t) > 16 \/ (v >= -(Pow2(Bits(t)) \div 2) /\ v < Pow2(Bits(t)) \div 2))

(* ------------------------------ scale kinds ------------------------------ *)
\* parameter variants (small integers)
LinearParams == {[slope |-> 2, icpt |-> 0], [slope |-> -1, icpt |-> 5], [slope |-> 1, icpt |-> 0]}
PolyParams == {<<>>, <<7>>, <<0, 1>>, <<1, 0, 2>>, <<-1, 2, 0, 1>>}
\* table: points (input, output) with integer slopes; listed increasing or decreasing
TableParams == {[ins |-> <<0, 2, 4>>, outs |-> <<10, 20, 40>>], [ins |-> <<4, 2, 0>>, outs |-> <<40, 20, 10>>],
                [ins |-> <<-2, 1>>, outs |-> <<6, 0>>],
                \* outputs need not be monotonic: a plateau (saturating sensor) and a fold-back
                [ins |-> <<0, 2, 4>>, outs |-> <<10, 10, 30>>], [ins |-> <<0, 2, 4>>, outs |-> <<10, 30, 20>>]}
SensorKinds == {"RTD", "Thermocouple", "Thermistor", "Strain"}

Scales(i) ==   \* the scales that may stand at 0-based position i
  LET srcs == {RAW} \cup 0..(i - 1) IN
  (IF "Linear" \in UnaryKinds THEN {[kind |-> "Linear", src |-> s, p |-> p] : s \in srcs, p \in LinearParams} ELSE {})
  \cup (IF "Polynomial" \in UnaryKinds THEN {[kind |-> "Polynomial", src |-> s, c |-> c] : s \in srcs, c \in PolyParams} ELSE {})
  \cup (IF "Table" \in UnaryKinds THEN {[kind |-> "Table", src |-> s, t |-> t] : s \in srcs, t \in TableParams} ELSE {})
  \cup (IF "NoOp" \in UnaryKinds THEN {[kind |-> "NoOp", src |-> s] : s \in srcs} ELSE {})
  \cup (IF "Sensor" \in UnaryKinds THEN {[kind |-> "Sensor", src |-> RAW, sensor |-> k] : k \in SensorKinds} ELSE {})
  \cup {[kind |-> k, l |-> a, r |-> b] : k \in BinaryKinds, a \in srcs, b \in srcs}

\* DAQmx: scale i without a Scale_Type property is the raw scaler with id i; later scales read scalers or scales by
\* index (the raw data itself is not an input for DAQmx channels)
ScalesD(i) ==
  LET srcs == 0..(i - 1) IN
  (IF "Linear" \in UnaryKinds THEN {[kind |-> "Linear", src |-> s, p |-> p] : s \in srcs, p \in LinearParams} ELSE {})
  \cup (IF "Polynomial" \in UnaryKinds THEN {[kind |-> "Polynomial", src |-> s, c |-> c] : s \in srcs, c \in {<<1, 0, 2>>}} ELSE {})
  \cup (IF "NoOp" \in UnaryKinds THEN {[kind |-> "NoOp", src |-> s] : s \in srcs} ELSE {})
  \cup {[kind |-> k, l |-> a, r |-> b] : k \in BinaryKinds, a \in srcs, b \in srcs}
RECURSIVE GraphsD(_, _)
GraphsD(prefix, n) == IF n = 0 THEN {prefix}
                      ELSE {Append(h, s) : h \in GraphsD(prefix, n - 1), s \in ScalesD(Len(prefix) + n - 1)}
DaqmxGraphs == UNION {UNION {GraphsD(<<[kind |-> "Scaler", id |-> 0, ty |-> t0], [kind |-> "Scaler", id |-> 1, ty |-> t1]>>, n)
                               : n \in 0..MaxDaqScales} : t0 \in DaqTypes, t1 \in DaqTypes}
IsDaqmx(sc) == sc[1].kind = "Scaler"

RECURSIVE Graphs(_)
Graphs(n) == IF n = 0 THEN {<<>>} ELSE {Append(h, s) : h \in Graphs(n - 1), s \in Scales(n - 1)}

(* ------------------------------- evaluation ------------------------------ *)
RECURSIVE PolyVal(_, _, _)
PolyVal(c, x, j) == IF j > Len(c) THEN 0 ELSE c[j] + x * PolyVal(c, x, j + 1)        \* Horner

\* clamped piecewise-linear interpolation through the points sorted by input (numpy.interp)
Sorted(t) == IF t.ins[1] < t.ins[Len(t.ins)] THEN t
             ELSE [ins |-> [i \in DOMAIN t.ins |-> t.ins[Len(t.ins) + 1 - i]], outs |-> [i \in DOMAIN t.outs |-> t.outs[Len(t.outs) + 1 - i]]]
TableVal(t0, x) ==
  LET t == Sorted(t0)  n == Len(t.ins) IN
  IF x <= t.ins[1] THEN t.outs[1]
  ELSE IF x >= t.ins[n] THEN t.outs[n]
  ELSE LET i == CHOOSE j \in 1..(n - 1) : t.ins[j] <= x /\ x < t.ins[j + 1] IN
       t.outs[i] + ((x - t.ins[i]) * (t.outs[i + 1] - t.outs[i])) \div (t.ins[i + 1] - t.ins[i])
\* the interpolated value is exact iff the division above is exact
TableExact(t0, x) ==
  LET t == Sorted(t0)  n == Len(t.ins) IN
  x <= t.ins[1] \/ x >= t.ins[n] \/
  LET i == CHOOSE j \in 1..(n - 1) : t.ins[j] <= x /\ x < t.ins[j + 1] IN
  ((x - t.ins[i]) * (t.outs[i + 1] - t.outs[i])) % (t.ins[i + 1] - t.ins[i]) = 0

RECURSIVE Eval(_, _, _)
Eval(sc, i, x) ==        \* value of node i (RAW or 0-based scale index) for raw value x
  IF i = RAW THEN x
  ELSE LET s == sc[i + 1] IN
       CASE s.kind = "Scaler"     -> x + 10 * s.id          \* the raw values of scaler id are the data plus 10 * id
         [] s.kind = "Linear"     -> Eval(sc, s.src, x) * s.p.slope + s.p.icpt
         [] s.kind = "Polynomial" -> PolyVal(s.c, Eval(sc, s.src, x), 1)
         [] s.kind = "Table"      -> TableVal(s.t, Eval(sc, s.src, x))
         [] s.kind = "NoOp"       -> Eval(sc, s.src, x)
         [] s.kind = "Add"        -> Eval(sc, s.l, x) + Eval(sc, s.r, x)
         [] s.kind = "Subtract"   -> Eval(sc, s.r, x) - Eval(sc, s.l, x)      \* right minus left, as LabVIEW's Excel add-in
         [] OTHER                 -> 0

RECURSIVE DType(_, _, _)
DType(sc, i, raw) ==
  IF i = RAW THEN raw
  ELSE LET s == sc[i + 1] IN
       CASE s.kind = "Scaler" -> s.ty
         [] s.kind \in {"Add", "Subtract"} -> ResultType(DType(sc, s.l, raw), DType(sc, s.r, raw))
         [] s.kind = "NoOp" -> DType(sc, s.src, raw)     \* a no-op scale passes its input through
         [] OTHER -> "float64"                \* every computing scale produces double precision data

RECURSIVE HasSensor(_, _)
HasSensor(sc, i) == i # RAW /\ LET s == sc[i + 1] IN
  CASE s.kind = "Sensor" -> TRUE
    [] s.kind = "Scaler" -> FALSE
    [] s.kind \in {"Add", "Subtract"} -> HasSensor(sc, s.l) \/ HasSensor(sc, s.r)
    [] OTHER -> HasSensor(sc, s.src)

\* every node on the way to the output stays representable (wrap-around of integer Add/Subtract is not judged)
RECURSIVE NodeOK(_, _, _, _)
NodeOK(sc, i, raw, x) ==
  i = RAW \/
  LET s == sc[i + 1] IN
  /\ InRange(Eval(sc, i, x), DType(sc, i, raw))
  /\ CASE s.kind \in {"Add", "Subtract"} -> NodeOK(sc, s.l, raw, x) /\ NodeOK(sc, s.r, raw, x)
       [] s.kind = "Table" -> NodeOK(sc, s.src, raw, x) /\ TableExact(s.t, Eval(sc, s.src, x))
       [] s.kind \in {"Sensor", "Scaler"} -> TRUE
       [] OTHER -> NodeOK(sc, s.src, raw, x)

DataOf(raw) == IF IsUnsigned(raw) THEN <<0, 1, 2, 3, 4>> ELSE <<-2, 0, 1, 3, 4>>

(* ------------------------------- placement ------------------------------- *)
\* which level's scaling applies: the first of channel, group, root that defines an enabled scaling
\* a placement gives, per level, one of: "none", "main" (the graph under test), "other" (a different valid scaling),
\* "scaled" (a scaling marked NI_Scaling_Status = scaled), "unsupported" (a scaling with an unknown scale type)
LevelSeq == <<"channel", "group", "root">>
Placements ==
  {p \in [{"channel", "group", "root"} -> {"none", "main", "other", "scaled", "unsupported"}] :
     /\ \E lv \in Levels : p[lv] = "main"
     /\ Cardinality({lv \in {"channel", "group", "root"} : p[lv] = "main"}) = 1
     /\ (FALSE \in Shadow /\ ~(TRUE \in Shadow)) => \A lv \in {"channel", "group", "root"} : p[lv] \in {"none", "main"}}
Effective(p) ==    \* what get_scaling returns
  LET live(lv) == p[lv] \in {"main", "other"} IN
  IF live("channel") THEN p["channel"] ELSE IF live("group") THEN p["group"] ELSE IF live("root") THEN p["root"] ELSE "none"

(* ------------------------------- behaviour ------------------------------- *)
Chain(n) == [i \in 1..n |-> [kind |-> "Linear", src |-> IF i = 1 THEN RAW ELSE i - 2, p |-> [slope |-> 1, icpt |-> i]]]
Init == g \in [raw : RawTypes, scales : UNION {Graphs(n) : n \in 1..MaxScales} \cup {Chain(n) : n \in LongChains},
               place : Placements,
               given : BOOLEAN]
        \cup [raw : {"uint8"}, scales : DaqmxGraphs, place : {[lv \in {"channel", "group", "root"} |-> IF lv = "channel" THEN "main" ELSE "none"]},
               given : {TRUE}]
\* given: NI_Number_Of_Scales present (else inferred from the property names)
Next == UNCHANGED g
Spec == Init /\ [][Next]_vars

Out(sc) == Len(sc) - 1
\* a case is judged on its values iff no sensor scale is involved and every node stays representable
Judged(c) == ~HasSensor(c.scales, Out(c.scales)) /\ \A i \in DOMAIN DataOf(c.raw) : NodeOK(c.scales, Out(c.scales), c.raw, DataOf(c.raw)[i])

\* the scaling placed on the other levels: two scales, so that a level with fewer (or more) scales than another is met
OtherScales == <<[kind |-> "Linear", src |-> RAW, p |-> [slope |-> 10, icpt |-> 100]],
                 [kind |-> "Linear", src |-> 0, p |-> [slope |-> 1, icpt |-> 7]]>>
Expected(c) ==
  LET eff == Effective(c.place)
      sc == IF eff = "main" THEN c.scales ELSE OtherScales IN
  IF eff = "none" THEN [dtype |-> c.raw, vals |-> DataOf(c.raw), scaled |-> FALSE, judged |-> TRUE]
  ELSE [dtype |-> DType(sc, Out(sc), c.raw),
        vals |-> [i \in DOMAIN DataOf(c.raw) |-> Eval(sc, Out(sc), DataOf(c.raw)[i])],
        scaled |-> TRUE, judged |-> IF eff = "main" THEN Judged(c) ELSE TRUE]

\* specification-level sanity: scaling is elementwise, so a window of the scaled data is the scaled window
Elementwise == \A i \in DOMAIN DataOf(g.raw) :
   Expected(g).vals[i] = (IF Expected(g).scaled
                          THEN Eval(IF Effective(g.place) = "main" THEN g.scales ELSE OtherScales,
                                    Out(IF Effective(g.place) = "main" THEN g.scales ELSE OtherScales), DataOf(g.raw)[i])
                          ELSE DataOf(g.raw)[i])
DTypeTotal == Expected(g).dtype \in RawTypes \cup {"float64", "float32", "int16", "int32", "int64", "uint16", "uint32", "uint64", "int8", "uint8"}

GenCase == GenPrint => PrintT(<<"GEN", ToJson([case |-> g, data |-> DataOf(g.raw), expect |-> Expected(g)])>>)
=============================================================================
