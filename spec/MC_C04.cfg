SPECIFICATION Spec
CONSTANTS
  MaxSegs = 2
  NVals <- c_NVals
  KVals <- c_KVals
  Trunc = TRUE
  Extra = 2
  Steps <- c_Steps
  MaxSliceLen = 4
  StaleIndex = FALSE
  ZeroLenSlice = FALSE
  ExactFinalChunk = TRUE
  LongSpecs <- c_LongNone
  GenPrint = FALSE
INVARIANT AlgorithmCorrect
INVARIANT FootprintBounded
INVARIANT GenCase
CHECK_DEADLOCK FALSE
