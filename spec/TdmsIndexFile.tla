---------------------------- MODULE TdmsIndexFile ----------------------------
(***************************************************************************)
(* A .tdms_index file beside the data file (DESIGN.md 3.6): C09.           *)
(* IndexOf(file) = per segment the lead-in (tag TDSh) + metadata, no raw    *)
(* data.  The metadata walk of TdmsReader.read_metadata runs over the      *)
(* INDEX stream while keeping all positions in DATA-file coordinates:      *)
(*   - the reader's segment_position starts at 0 and becomes the (clamped) *)
(*     next_segment_pos of the segment just read,                          *)
(*   - the index stream is advanced by                                     *)
(*       start + data_position - segment_position = start + 28 + metadata, *)
(*   - clamping uses the size of the DATA file.                            *)
(* IndexTransparent: this walk keeps exactly the segments, chunk counts    *)
(* and final-chunk lengths of the walk over the data file, for every cut   *)
(* of the data file.  Opening the index alone (no data file: no clamping)  *)
(* yields the structure of the complete file.                              *)
(***************************************************************************)
EXTENDS TdmsTruncate

IdxPos(segs, j) == Sum([m \in 1..(j - 1) |-> LeadIn + MetaBytes(segs[m])])
IdxLen(segs) == IdxPos(segs, Len(segs) + 1)

\* one step of the walk over the index stream; st = [ipos, pos (reader's segment_position), kept, stop]
ReadSegmentIdx(segs, size, st, j) ==        \* size = data file size, or -1 when only the index is open
  IF st.stop THEN st ELSE
  IF IdxLen(segs) - st.ipos < LeadIn THEN [st EXCEPT !.stop = TRUE]
  ELSE
  LET marker == j = Len(segs) /\ f.marker
      dataPos == st.pos + LeadIn + MetaBytes(segs[j])
      declared == st.pos + SegBytes(segs[j])
      clamp == size >= 0 /\ ~marker /\ declared > size
      nextPos == IF marker THEN size ELSE IF clamp THEN size ELSE declared
      incomplete == marker \/ clamp
  IN IF incomplete /\ nextPos < dataPos THEN [st EXCEPT !.stop = TRUE]
     ELSE
     LET total == nextPos - dataPos
         cb == ChunkBytes(segs[j].objs)
         rem == IF cb = 0 THEN 0 ELSE total % cb
         chunks == IF cb = 0 THEN 0 ELSE (total \div cb) + (IF rem = 0 THEN 0 ELSE 1)
         final == IF rem = 0 THEN <<>> ELSE FinalLens(segs[j], rem, incomplete)
     IN [ipos |-> st.ipos + (dataPos - st.pos),            \* seek(start + data_position - position)
         pos |-> nextPos, stop |-> FALSE,
         kept |-> Append(st.kept, [j |-> j, chunks |-> chunks, final |-> final, incomplete |-> incomplete,
                                   bad |-> cb = 0 /\ total # 0])]

RECURSIVE WalkIdx(_, _, _)
WalkIdx(segs, size, j) == IF j = 0 THEN [ipos |-> 0, pos |-> 0, stop |-> FALSE, kept |-> <<>>]
                          ELSE ReadSegmentIdx(segs, size, WalkIdx(segs, size, j - 1), j)

\* C09 (specification level)
IndexTransparent == cut > 0 => WalkIdx(E, cut, Len(E)).kept = ReadCut(E, cut).kept
\* every segment's index stream position is where the walk expects it
IndexPositions == cut = 0 =>
   LET w == WalkIdx(E, FileLen(E), Len(E)) IN ~f.marker => (w.ipos = IdxLen(E) /\ Len(w.kept) = Len(E))
\* index only: structure of the complete file (the marker makes lengths unknowable: outside the statement)
IndexOnlyComplete == (cut = 0 /\ ~f.marker) =>
   WalkIdx(E, -1, Len(E)).kept = ReadCut(E, FileLen(E)).kept
=============================================================================
