---- MODULE MC_C01_struct ----
(* C01 slice (i): structure-heavy. root, two groups, three channels; object lists in many orders, including
   channels before their group, groups never declared, root missing; explicit encoding only. *)
EXTENDS TdmsSegments
R == "/"
G1 == "/'g1'"
G2 == "/'a'"        \* a group named like a channel: the paths of G1 and G2 run together read like the path of A
A == "/'g1'/'a'"
B == "/'g1'/'b'"
C == "/'a'/'a'"
c_Paths == {R, G1, G2, A, B, C}
c_Chans == {A, B, C}
c_Groups == {G1, G2}
c_GroupOf == (A :> G1) @@ (B :> G1) @@ (C :> G2)
Short == {<<>>} \cup {<<x>> : x \in c_Paths} \cup {<<x, y>> : x \in c_Paths, y \in c_Paths}
c_ObjLists == {l \in Short : Len(l) < 2 \/ l[1] # l[2]}
              \cup {<<R, G1, A, B>>, <<R, G1, G2, A, B, C>>, <<C, A, G2, B>>, <<B, A, R>>, <<G2, G1, C, A>>}
c_TypeSet == {"Int32"}
c_Width == [t \in {"Int32"} |-> 4]
c_Unsized == {}
c_NVals == {0, 1, 2}
c_NValsQ == {0, 2}
c_KVals == {1, 2}
c_Layouts == {"contig"}
c_Orders == {"le"}
c_PropNames == {}
c_PropVals == {}
c_Forbidden == {}
\* order x properties: which listed objects carry a property must not influence the order of first appearance
c_ObjListsP == {<<A, B, C>>, <<C, B, A>>, <<R, G1, G2, A, B, C>>, <<C, A, G2, B>>, <<G2, G1, C, A>>, <<B, A, R>>,
                <<G2, G1>>, <<B>>, <<G1, C>>}
c_ObjListsPQ == {<<A, B, C>>, <<C, A, G2, B>>, <<G2, G1, C, A>>, <<B, A, R>>, <<G1, G2>>, <<A>>}
c_PropNamesP == {"p1"}
c_PropValsP == {"v1"}
c_NValsP == {1}
c_KValsP == {1}
====
