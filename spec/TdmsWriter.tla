------------------------------ MODULE TdmsWriter ------------------------------
(***************************************************************************)
(* Programs against TdmsWriter (DESIGN.md 3.7): C07, C08, C10.             *)
(*                                                                         *)
(* A program is a history of calls: OpenSession(mode), WriteSegment(objs), *)
(* CloseSession.  WriteSegment mirrors TdmsWriter.write_segment: a root    *)
(* object is added to a session's first segment unless supplied, groups of *)
(* listed channels are added (sorted by name) unless this session already  *)
(* wrote them, objects are stably sorted root < groups < channels.  The    *)
(* writer only ever emits the explicit form (metadata + new object list +  *)
(* raw data), so `emitted' is a sequence of explicit segments whose        *)
(* meaning is TdmsSegments' ExplicitView (instantiated below).             *)
(* `logical' is what the caller asked to be stored, kept independently:    *)
(* per channel the total number of values written and the TDMS type its    *)
(* array class maps to, per object the last value class per property.      *)
(***************************************************************************)
EXTENDS Integers, Sequences, FiniteSets, TLC, Json

CONSTANTS
  Root, GroupsW, ChansW, GroupOfW, GroupRank,   \* objects that may be written; rank = sort order of group names
  ObjSeqs,           \* candidate object lists per write_segment call (duplicate free)
  ArrayClasses,      \* classes of array arguments a channel may be given
  Lens,              \* array lengths
  ValueClasses,      \* classes of property values
  PropNamesW, MaxPropObjsW,
  MaxCalls, MaxSessions,
  MaxRefused,        \* how many refused write_segment calls a program may contain
  GenPrint

VARIABLES prog, emitted, rootWritten, groupsWritten, open, nsessions, cls, logical
vars == <<prog, emitted, rootWritten, groupsWritten, open, nsessions, cls, logical>>

PathsW == {Root} \cup GroupsW \cup ChansW

(* ------------------- value -> TDMS type (writer.py case analysis) ------------------- *)
\* _to_tdms_value / to_int_property_value: the TDMS type a property value is written with
TdmsTypeOfValue(vc) ==
  CASE vc \in {"int_small", "int_neg", "int_m2p31", "int_2p31m1", "int_three"} -> "Int32"
    [] vc \in {"int_2p31", "int_lt_m2p31", "int_2p63m1", "int_m2p63"} -> "Int64"
    [] vc \in {"int_2p63", "int_2p64m1"} -> "Uint64"
    [] vc \in {"float", "float_nan", "float_int_valued", "float_five"} -> "DoubleFloat"
    [] vc \in {"bool_true", "bool_false", "np_bool"} -> "Boolean"
    [] vc \in {"str_ascii", "str_multibyte", "str_empty", "str_tag"} -> "String"
    [] vc \in {"datetime", "datetime64_us", "datetime64_s", "tdms_timestamp", "datetime_tz"} -> "TimeStamp"
    [] vc = "np_int8" -> "Int8"   [] vc = "np_int16" -> "Int16" [] vc = "np_int32" -> "Int32" [] vc = "np_int64" -> "Int64"
    [] vc = "np_uint8" -> "Uint8" [] vc = "np_uint16" -> "Uint16" [] vc = "np_uint32" -> "Uint32"
    [] vc = "np_uint64" -> "Uint64" [] vc = "np_float32" -> "SingleFloat" [] vc = "np_float64" -> "DoubleFloat"
    [] vc = "wrap_Int8" -> "Int8" [] vc = "wrap_Int16" -> "Int16" [] vc = "wrap_Uint8" -> "Uint8"
    [] vc = "wrap_Uint16" -> "Uint16" [] vc = "wrap_Uint32" -> "Uint32" [] vc = "wrap_Int64" -> "Int64"
    [] vc = "wrap_SingleFloat" -> "SingleFloat" [] vc = "wrap_String" -> "String" [] vc = "wrap_Boolean" -> "Boolean"

\* ChannelObject.data_type / _infer_dtype: the TDMS types a channel given this class of array may come back with
\* (a set: a list of Python bools has no dtype of its own - bool is an int - so Boolean and Int8 are both accepted)
TdmsTypesOfArray(ac) ==
  CASE ac = "np_int8" -> {"Int8"} [] ac = "np_int16" -> {"Int16"} [] ac = "np_int32" -> {"Int32"}
    [] ac = "np_int64" -> {"Int64"} [] ac = "np_uint8" -> {"Uint8"} [] ac = "np_uint16" -> {"Uint16"}
    [] ac = "np_uint32" -> {"Uint32"} [] ac = "np_uint64" -> {"Uint64"}
    [] ac = "np_float32" -> {"SingleFloat"} [] ac = "np_float64" -> {"DoubleFloat"}
    [] ac = "np_bool" -> {"Boolean"} [] ac = "np_complex64" -> {"ComplexSingleFloat"}
    [] ac = "np_complex128" -> {"ComplexDoubleFloat"}
    [] ac = "np_be_int32" -> {"Int32"} [] ac = "np_be_float64" -> {"DoubleFloat"}
    [] ac = "list_i8" -> {"Int8"} [] ac = "list_u8" -> {"Uint8"} [] ac = "list_i16" -> {"Int16"}
    [] ac = "list_u16" -> {"Uint16"} [] ac = "list_i32" -> {"Int32"} [] ac = "list_u32" -> {"Uint32"}
    [] ac = "list_i64" -> {"Int64"} [] ac = "list_u64" -> {"Uint64"}
    [] ac = "list_float" -> {"DoubleFloat"} [] ac = "list_bool" -> {"Int8", "Boolean"}
    [] ac \in {"list_str", "np_str", "list_str_multibyte", "list_str_all_empty", "np_obj_str"} -> {"String"}
    [] ac \in {"np_datetime64_us", "np_datetime64_ns", "list_datetime", "timestamp_array", "np_obj_datetime", "list_datetime64", "list_datetime_tz"} -> {"TimeStamp"}

ListClass(ac) == ac \in {"list_i8", "list_u8", "list_i16", "list_u16", "list_i32", "list_u32", "list_i64", "list_u64",
                         "list_float", "list_bool", "list_str", "list_str_multibyte", "list_str_all_empty", "list_datetime", "list_datetime64", "list_datetime_tz"}
\* classes whose type is taken from the first element: an empty array of them cannot be written
NeedsElement(ac) == ListClass(ac) \/ ac \in {"np_str", "np_obj_str", "np_obj_datetime", "timestamp_array", "np_be_int32", "np_be_float64",
                                              "np_datetime64_us", "np_datetime64_ns"}

(* ----------------------------- write_segment ---------------------------- *)
IsRoot(p) == p = Root
IsGroup(p) == p \in GroupsW
IsChan(p) == p \in ChansW
Range(s) == {s[i] : i \in DOMAIN s}

RECURSIVE SortGroups(_)
SortGroups(S) == IF S = {} THEN <<>>
                 ELSE LET g == CHOOSE x \in S : \A y \in S : GroupRank[x] <= GroupRank[y] IN <<g>> \o SortGroups(S \ {g})

\* objs: sequence of [p, len, prop]; prop = <<>> or <<name, value class>>
Emit(objs) ==
  LET paths == {objs[i].p : i \in DOMAIN objs}
      addRoot == ~rootWritten /\ Root \notin paths
      included == {p \in paths : IsGroup(p)}
      required == {GroupOfW[p] : p \in {q \in paths : IsChan(q)}}
      toAdd == SortGroups(required \ (included \cup groupsWritten))
      extra == (IF addRoot THEN <<[p |-> Root, len |-> 0, prop |-> <<>>]>> ELSE <<>>)
               \o [i \in DOMAIN toAdd |-> [p |-> toAdd[i], len |-> 0, prop |-> <<>>]]
      all == objs \o extra
      sorted == SelectSeq(all, LAMBDA o : IsRoot(o.p)) \o SelectSeq(all, LAMBDA o : IsGroup(o.p))
                \o SelectSeq(all, LAMBDA o : IsChan(o.p))
  IN [objs |-> [i \in DOMAIN sorted |-> [p |-> sorted[i].p, has |-> IsChan(sorted[i].p), n |-> sorted[i].len, sv |-> 0,
                                         pu |-> IF sorted[i].prop = <<>> THEN <<>> ELSE <<sorted[i].prop>>]],
      k |-> IF \E i \in DOMAIN sorted : IsChan(sorted[i].p) /\ sorted[i].len > 0 THEN 1 ELSE 0,
      il |-> FALSE, be |-> FALSE,
      included |-> included, added |-> Range(toAdd)]

PropChoicesW(L) ==
  {g \in [DOMAIN L -> {<<>>} \cup {<<nm, vc>> : nm \in PropNamesW, vc \in ValueClasses}] :
      Cardinality({i \in DOMAIN L : g[i] # <<>>}) <= MaxPropObjsW}
LenChoices(L) == {g \in [DOMAIN L -> Lens \cup {0}] :
                    \A i \in DOMAIN L : /\ ~IsChan(L[i]) => g[i] = 0
                                        /\ IsChan(L[i]) => g[i] \in Lens
                                        /\ (IsChan(L[i]) /\ NeedsElement(cls[L[i]])) => g[i] > 0}

NCalls == Cardinality({i \in DOMAIN prog : prog[i].call = "write"})

Init == /\ prog = <<>> /\ emitted = <<>> /\ rootWritten = FALSE /\ groupsWritten = {} /\ open = FALSE
        /\ nsessions = 0
        /\ cls \in [ChansW -> ArrayClasses]
        /\ logical = [len |-> [c \in ChansW |-> 0], written |-> {}, props |-> [p \in PathsW |-> <<>>]]

OpenSession ==
  /\ ~open /\ nsessions < MaxSessions /\ NCalls < MaxCalls
  /\ open' = TRUE /\ nsessions' = nsessions + 1
  /\ rootWritten' = FALSE /\ groupsWritten' = {}          \* a new TdmsWriter instance (mode 'w' first, then 'a')
  /\ prog' = Append(prog, [call |-> "open", mode |-> IF nsessions = 0 THEN "w" ELSE "a"])
  /\ UNCHANGED <<emitted, cls, logical>>

CloseSession ==
  /\ open /\ open' = FALSE
  /\ prog' = Append(prog, [call |-> "close"])
  /\ UNCHANGED <<emitted, rootWritten, groupsWritten, nsessions, cls, logical>>

RECURSIVE ApplyProps(_, _)
ApplyProps(pm, objs) ==     \* last write wins, per object and property name; a property map is a sequence of <<name, vc>>
  IF objs = <<>> THEN pm
  ELSE LET o == Head(objs) IN
       ApplyProps(IF o.prop = <<>> THEN pm
                  ELSE [pm EXCEPT ![o.p] = SelectSeq(@, LAMBDA e : e[1] # o.prop[1]) \o <<o.prop>>],
                  Tail(objs))

WriteSegment ==
  /\ open /\ NCalls < MaxCalls
  /\ \E L \in ObjSeqs : \E lens \in LenChoices(L) : \E pr \in PropChoicesW(L) :
       LET objs == [i \in DOMAIN L |-> [p |-> L[i], len |-> lens[i], prop |-> pr[i]]]
           e == Emit(objs)
       IN /\ emitted' = Append(emitted, e)
          /\ rootWritten' = TRUE
          /\ groupsWritten' = groupsWritten \cup e.included \cup e.added
          /\ prog' = Append(prog, [call |-> "write", objs |-> objs])
          /\ logical' = [len |-> [c \in ChansW |-> logical.len[c] +
                                     (IF \E i \in DOMAIN objs : objs[i].p = c
                                      THEN objs[CHOOSE i \in DOMAIN objs : objs[i].p = c].len ELSE 0)],
                         written |-> logical.written \cup {objs[i].p : i \in DOMAIN objs},
                         props |-> ApplyProps(logical.props, objs)]
  /\ UNCHANGED <<open, nsessions, cls>>

\* A call the writer refuses - an unsupported property value, an array dtype without a TDMS type, the same path twice -
\* raises and changes nothing: no segment is emitted and the bookkeeping of declared objects stays as it was.
\* (The refused call carries the objects of some legal call plus the offending one: L is recorded for the replay.)
RefusalKinds == {"bad_property_value", "unsupported_dtype", "duplicate_path", "list_beyond_inferred_type"}
NRefused == Cardinality({i \in DOMAIN prog : prog[i].call = "refused"})
RefusedWrite ==
  /\ open /\ NRefused < MaxRefused /\ NCalls < MaxCalls
  /\ \E L \in ObjSeqs : \E k \in RefusalKinds :
        prog' = Append(prog, [call |-> "refused", kind |-> k, paths |-> L])
  /\ UNCHANGED <<emitted, rootWritten, groupsWritten, open, nsessions, cls, logical>>

Next == OpenSession \/ WriteSegment \/ CloseSession \/ RefusedWrite
Spec == Init /\ [][Next]_vars

(* ----------------- meaning of the emitted segments: TdmsSegments ---------------- *)
AllTdmsTypes == {"Int8", "Int16", "Int32", "Int64", "Uint8", "Uint16", "Uint32", "Uint64", "SingleFloat", "DoubleFloat",
                 "String", "Boolean", "TimeStamp", "ComplexSingleFloat", "ComplexDoubleFloat"}
TyOf == [c \in ChansW |-> CHOOSE t \in TdmsTypesOfArray(cls[c]) : TRUE]
Seg == INSTANCE TdmsSegments WITH
         Paths <- PathsW, Chans <- ChansW, Groups <- GroupsW, GroupOf <- GroupOfW, ObjLists <- {},
         TypeSet <- AllTdmsTypes, Width <- [t \in AllTdmsTypes |-> 1], Unsized <- {},
         MaxSegs <- 0, NVals <- {}, KVals <- {}, SVals <- {0}, Inherit <- FALSE, Layouts <- {}, Orders <- {},
         PropNames <- {}, PropVals <- {}, MaxPropObjs <- 0, Forbidden <- {}, GenPrint <- FALSE,
         file <- <<>>, expl <- [i \in DOMAIN emitted |-> [objs |-> emitted[i].objs, k |-> emitted[i].k,
                                                          il |-> FALSE, be |-> FALSE]],
         ty <- TyOf, status <- "ok"

\* the reader model run over the explicit encoding of what was emitted
EncodedEmitted ==
  [i \in DOMAIN emitted |->
     LET E == [objs |-> emitted[i].objs, k |-> emitted[i].k, il |-> FALSE, be |-> FALSE]
     IN Seg!EncSeg(E, Seg!ExplicitEnc(E))]

(* ------------------------------ properties ------------------------------ *)
PropMapOf(seq) == [nm \in {seq[i][1] : i \in DOMAIN seq} |-> (seq[CHOOSE i \in DOMAIN seq : seq[i][1] = nm])[2]]

\* C07: what the reader (model) gets from the emitted segments is what the caller asked to store
RoundTrip ==
  LET st == Seg!ReadFile(EncodedEmitted)
      v == Seg!ReaderView(st)
  IN /\ ~st.err
     /\ \A c \in ChansW : c \in logical.written <=> c \in DOMAIN v.len
     /\ \A c \in ChansW \cap logical.written : v.len[c] = logical.len[c]
     /\ \A p \in logical.written : v.props[p] = PropMapOf(logical.props[p])

\* C08 (structure): the first segment declares the root, and each channel's group is declared no later
\* than the channel - in the same segment before it, or in an earlier segment
ParentsFirst ==
  /\ emitted # <<>> => emitted[1].objs[1].p = Root
  /\ \A s \in DOMAIN emitted : \A i \in DOMAIN emitted[s].objs :
       LET o == emitted[s].objs[i] IN
       IsChan(o.p) =>
         \/ \E j \in 1..(i - 1) : emitted[s].objs[j].p = GroupOfW[o.p]
         \/ \E s2 \in 1..(s - 1) : \E j \in DOMAIN emitted[s2].objs : emitted[s2].objs[j].p = GroupOfW[o.p]

\* GEN: every reachable state is a program; print it with the expected content
ExpectChan(c) == [len |-> logical.len[c], types |-> TdmsTypesOfArray(cls[c]), cls |-> cls[c]]
GenCase == GenPrint =>
  PrintT(<<"GEN", ToJson([prog |-> prog, cls |-> cls,
                          chans |-> [c \in ChansW \cap logical.written |-> ExpectChan(c)],
                          props |-> [p \in logical.written |->
                                       [i \in DOMAIN logical.props[p] |->
                                          [name |-> logical.props[p][i][1], vc |-> logical.props[p][i][2],
                                           type |-> TdmsTypeOfValue(logical.props[p][i][2])]]],
                          view |-> Seg!ExplicitView,
                          emitted |-> [i \in DOMAIN emitted |-> [objs |-> [j \in DOMAIN emitted[i].objs |->
                                         [p |-> emitted[i].objs[j].p, has |-> emitted[i].objs[j].has,
                                          n |-> emitted[i].objs[j].n]]]]])>>)
=============================================================================
