---- MODULE MC_C07 ----
EXTENDS TdmsWriter
R == "/"
G1 == "/'g1'"
G2 == "/'g2'"
A == "/'g1'/'a'"
B == "/'g1'/'b'"
C == "/'g2'/'a'"
c_Groups == {G1, G2}
c_Chans == {A, B, C}
c_GroupOf == (A :> G1) @@ (B :> G1) @@ (C :> G2)
c_GroupRank == (G1 :> 1) @@ (G2 :> 2)
\* structure slice: object lists in caller order
All == {R, G1, G2, A, B, C}
c_SeqsStruct == {<<x>> : x \in All} \cup {<<x, y>> : x \in {A, B, C, G2}, y \in {R, G1, C, A}} \cup
                {<<C, A, B>>, <<B, G1, R>>, <<R, G2, G1, C, B, A>>}
c_SeqsStructOK == {l \in c_SeqsStruct : \A i, j \in DOMAIN l : i # j => l[i] # l[j]}
c_ClsStruct == {"np_int16"}
\* class slice: one channel, every array class
c_ChansOne == {A}
c_SeqsOne == {<<A>>, <<G1, A>>}
c_AllArrayClasses == {"np_int8", "np_int16", "np_int32", "np_int64", "np_uint8", "np_uint16", "np_uint32", "np_uint64",
   "np_float32", "np_float64", "np_bool", "np_complex64", "np_complex128", "np_be_int32", "np_be_float64",
   "list_i8", "list_u8", "list_i16", "list_u16", "list_i32", "list_u32", "list_i64", "list_u64",
   "list_float", "list_bool", "list_str", "np_str", "list_str_multibyte", "list_str_all_empty",
   "np_datetime64_us", "np_datetime64_ns", "list_datetime", "timestamp_array", "np_obj_str", "np_obj_datetime", "list_datetime64", "list_datetime_tz"}
c_AllValueClasses == {"int_three", "float_five", "str_tag", "int_small", "int_neg", "int_m2p31", "int_2p31m1", "int_2p31", "int_lt_m2p31", "int_2p63m1",
   "int_m2p63", "int_2p63", "int_2p64m1", "float", "float_nan", "float_int_valued", "bool_true", "bool_false",
   "np_bool", "str_ascii", "str_multibyte", "str_empty", "datetime", "datetime64_us", "datetime64_s",
   "tdms_timestamp", "datetime_tz", "np_int8", "np_int16", "np_int32", "np_int64", "np_uint8", "np_uint16", "np_uint32",
   "np_uint64", "np_float32", "np_float64", "wrap_Int8", "wrap_Int16", "wrap_Uint8", "wrap_Uint16", "wrap_Uint32",
   "wrap_Int64", "wrap_SingleFloat", "wrap_String", "wrap_Boolean"}
c_SeqsProps == {<<R>>, <<G1>>, <<A>>, <<R, G1, A>>}
c_FewValueClasses == {"datetime_tz", "int_three", "float_int_valued", "float_five", "int_small", "int_2p31", "float", "str_multibyte", "datetime64_us", "wrap_Uint16"}
c_SeqsRefuse == {<<A>>, <<C, A>>, <<G1>>, <<B, G1, R>>}
c_SeqsA == {<<A>>}
c_BigClasses == {"np_float64", "np_int16", "list_str"}
====
