------------------------------ MODULE Trace_Time ------------------------------
(* C12, code -> spec: conversions recorded from the real code, validated against TdmsTime's exact definitions. *)
EXTENDS TdmsTime, IOUtils, Json
CONSTANT Verbose
Traces == ndJsonDeserialize(IOEnv.TRACE_FILE)
VARIABLES tid, l
Tr == Traces[tid]
Million == <<0, 100>>

RecOK(r, hasPrev, prev) ==
  CASE r.kind = "roundtrip" ->
         \* r.us: microsecond count written (biased), r.sec / r.frac: bytes written, r.sub: r.us - r.sec * 10^6,
         \* r.back: microsecond count read back (biased)
         /\ DenotesFloor(r.us, r.sec, r.frac, Million, r.sub)          \* what was written denotes that microsecond
         /\ r.back = r.us                                               \* and reads back identically
    [] r.kind = "convert" ->
         \* r.floor: harness-proposed floor(exact * S) (biased) with r.sub = r.floor - r.sec * S, checked here;
         \* r.scalar / r.array: results of TdmsTimestamp.as_datetime64 / TimestampArray.as_datetime64 (biased)
         /\ DenotesFloor(r.floor, r.sec, r.frac, r.S, r.sub)
         /\ Diff1(r.scalar, r.floor)                                    \* within one unit of the exact time
         /\ r.scalar = r.array                                          \* scalar and array conversions agree
         /\ (hasPrev /\ prev.kind = "convert" /\ prev.S = r.S) => Le(prev.scalar, r.scalar)      \* monotone
    [] r.kind = "raw" ->
         \* raw timestamps survive read / write / defragment bit-exactly; a single value (channel[i], array[i], a
         \* property) is handed out as the library's scalar timestamp (r.scalar = FALSE: a bare record came back)
         r.sec = r.sec_back /\ r.frac = r.frac_back /\ r.scalar
    [] r.kind = "tracklen" ->
         \* whatever the increment (decimal fractions included), the time axis has exactly one point per value
         r.nrel = r.n /\ r.nabs = r.n
    [] r.kind = "track" ->
         \* time_track: n points, point i = (a + i*b)/den seconds after the start; values are exact small integers
         /\ Len(r.rel) = r.n /\ Len(r.abs) = r.n
         /\ \A i \in 1..r.n : r.rel[i] = r.a + (i - 1) * r.b             \* relative form, in units of 1/den s
         /\ \A i \in 1..r.n :                                            \* absolute form: start + offset truncated
              LET num == (r.a + (i - 1) * r.b) * r.U
                  q == IF num >= 0 THEN num \div r.den ELSE -((-num) \div r.den)
              IN r.abs[i] = q

TInit == tid \in DOMAIN Traces /\ l = 1
TStep == /\ l <= Len(Tr.recs)
         /\ RecOK(Tr.recs[l], l > 1, Tr.recs[IF l = 1 THEN 1 ELSE l - 1])
         /\ l' = l + 1 /\ UNCHANGED tid
TSpec == TInit /\ [][TStep]_<<tid, l>>
Accepted == (l = Len(Tr.recs) + 1) => PrintT(<<"ACCEPT", Tr.id>>)
Progress == Verbose => PrintT(<<"AT", Tr.id, l>>)
=============================================================================
