---- MODULE MC_C10 ----
(* C10 source files: root, one declared and one implied group, three channels; channels with no data, with no data
   type (listed without index), property-only objects; properties; fragmented over segments. *)
EXTENDS TdmsDefragment
R == "/"
G1 == "/'g1'"
A == "/'g1'/'a'"
B == "/'g1'/'b'"
C == "/'g2'/'a'"
G2 == "/'g2'"
c_Paths == {R, G1, G2, A, B, C}
c_Chans == {A, B, C}
c_Groups == {G1, G2}
c_GroupOf == (A :> G1) @@ (B :> G1) @@ (C :> G2)
c_ObjLists == {<<R, G1, A, B>>, <<A>>, <<C, A>>, <<B, R>>, <<G1>>, <<C>>, <<A, B, C>>}
c_ObjListsQ == {<<R, G1, A, B>>, <<C, A>>, <<B, R>>, <<A>>, <<G1>>, <<G2, G1>>}
c_TypeSet == {"Int32", "String", "TimeStamp", "DoubleFloatWithUnit"}
c_TypeSetQ == {"Int32", "String"}
c_Width == [t \in c_TypeSet |-> CASE t = "Int32" -> 4 [] t = "TimeStamp" -> 16 [] t = "DoubleFloatWithUnit" -> 8 [] OTHER -> 6]
c_Unsized == {"String"}
c_NVals == {0, 2}
c_KVals == {1, 2}
c_Layouts == {"contig"}
c_Orders == {"le"}
c_PropNames == {"p1"}
c_PropVals == {"v1", "v2"}
c_Forbidden == {}
c_ObjListsBig == {<<A>>, <<B, A>>}
c_TypeSetBig == {"TimeStamp"}
====
