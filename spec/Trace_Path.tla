------------------------------ MODULE Trace_Path ------------------------------
(* C16, code -> spec: records (names, path string produced by ObjectPath, components returned by
   ObjectPath.from_string) for random unicode names; each record must satisfy the specification's Encode/Decode. *)
EXTENDS TdmsPath, IOUtils
CONSTANT Verbose
Traces == ndJsonDeserialize(IOEnv.TRACE_FILE)
VARIABLES tid, l
Tr == Traces[tid]
RecOK(r) == /\ r.path = Encode(r.comps)
            /\ r.decoded = r.comps
            /\ LET d == Decode(r.path) IN d.st = "done" /\ d.out = r.comps
TInit == tid \in DOMAIN Traces /\ l = 1 /\ comps = <<>> /\ path = <<>> /\ z = ScanInit
TStep == l <= Len(Tr.recs) /\ RecOK(Tr.recs[l]) /\ l' = l + 1 /\ UNCHANGED <<tid, comps, path, z>>
TSpec == TInit /\ [][TStep]_<<tid, l, comps, path, z>>
Accepted == (l = Len(Tr.recs) + 1) => PrintT(<<"ACCEPT", Tr.id>>)
Progress == Verbose => PrintT(<<"AT", Tr.id, l>>)
=============================================================================
