---------------------------- MODULE TdmsDefragment ----------------------------
(***************************************************************************)
(* TdmsWriter.defragment as a derived behaviour (DESIGN.md 3.7): C10.      *)
(* The copy of a file with view v is the sequence of explicit segments     *)
(*   root (all file properties);                                           *)
(*   per group, in API order: the group (its properties), then per channel *)
(*   of the group one segment holding all of the channel's raw values.     *)
(* A channel that never had a data type is written without a raw data      *)
(* index.  DefragPreserves: the view of the copy has the same groups,      *)
(* channels per group, lengths, properties, and the same data type         *)
(* wherever a channel holds at least one value.                            *)
(***************************************************************************)
EXTENDS TdmsSegments

Root == "/"

RECURSIVE SetToSeq(_)
SetToSeq(S) == IF S = {} THEN <<>> ELSE LET x == CHOOSE y \in S : TRUE IN <<x>> \o SetToSeq(S \ {x})
Updates(m) == LET names == SetToSeq(DOMAIN m) IN [i \in DOMAIN names |-> <<names[i], m[names[i]]>>]

PropsOf(v, p) == IF p \in DOMAIN v.props THEN v.props[p] ELSE EmptyMap

ChanSeg(v, c) ==
  [objs |-> <<[p |-> c, has |-> v.ty[c] # "none", n |-> v.len[c], sv |-> 0, pu |-> Updates(PropsOf(v, c))]>>,
   k |-> IF v.len[c] > 0 THEN 1 ELSE 0, il |-> FALSE, be |-> FALSE]

RECURSIVE ConcatSeq(_)
ConcatSeq(ss) == IF ss = <<>> THEN <<>> ELSE Head(ss) \o ConcatSeq(Tail(ss))

DefragSegs(v) ==
  <<[objs |-> <<[p |-> Root, has |-> FALSE, n |-> 0, sv |-> 0, pu |-> Updates(PropsOf(v, Root))]>>,
     k |-> 0, il |-> FALSE, be |-> FALSE]>>
  \o ConcatSeq([g \in DOMAIN v.groups |->
        <<[objs |-> <<[p |-> v.groups[g], has |-> FALSE, n |-> 0, sv |-> 0, pu |-> Updates(PropsOf(v, v.groups[g]))]>>,
           k |-> 0, il |-> FALSE, be |-> FALSE]>>
        \o [i \in DOMAIN v.gchans[v.groups[g]] |-> ChanSeg(v, v.gchans[v.groups[g]][i])]])

DefragView == ViewOf(DefragSegs(ExplicitView))

DefragPreserves ==
  status = "ok" =>
    LET v == ExplicitView  w == DefragView IN
    /\ w.groups = v.groups /\ w.gchans = v.gchans /\ w.len = v.len
    /\ \A c \in DOMAIN v.len : v.len[c] > 0 => w.ty[c] = v.ty[c]
    /\ \A p \in DOMAIN v.props : PropsOf(w, p) = v.props[p]
    /\ \A p \in DOMAIN w.props : p \notin DOMAIN v.props => w.props[p] = EmptyMap

GenDefrag == GenPrint => PrintT(<<"GEN", ToJson([file |-> file, ty |-> ty, status |-> status,
                                                  view |-> ExplicitView, copy |-> DefragView])>>)
=============================================================================
