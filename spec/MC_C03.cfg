INIT AccInit
NEXT AccNext
CONSTANTS
  Shapes2 <- c_Shapes
  MaxSegs3 = 2
  MaxIters = 1
  Dense = FALSE
  SharedCursorBug = FALSE
  MaxHist = 0
  GenPrint = FALSE
  StaleIndex = FALSE
  ExactFinalChunk = TRUE
  ZeroLenSlice = FALSE
INVARIANT PathsAgree
INVARIANT GenAccess
CHECK_DEADLOCK FALSE
