------------------------------ MODULE TdmsSegments ------------------------------
(***************************************************************************)
(* A TDMS file as an append-only log of segments, and npTDMS's reader as a *)
(* state machine over that log (DESIGN.md 3.3).  Serves C01, C02, C15.     *)
(*                                                                         *)
(* Two layers:                                                             *)
(*  - the EXPLICIT layer: what a file means.  An explicit segment lists    *)
(*    every object with has-data / values-per-chunk, the number of chunks, *)
(*    the layout and byte order, and property updates.  Its meaning is     *)
(*    definitional (ExplicitView).                                         *)
(*  - the ENCODING layer: what is on disk.  Each explicit segment is       *)
(*    written under one encoding chosen among those that the rewrite rules *)
(*    R1-R4 allow (full / matches-previous / no-data / unlisted per        *)
(*    object, new-object-list flag, metadata flag).                        *)
(* The READER MODEL mirrors TdmsSegment.read_segment_objects and           *)
(* TdmsReader._update_object_metadata/_update_object_properties, one       *)
(* branch per branch of the code, and is run over the encoded file.        *)
(* Invariant: ReaderView(file) = ExplicitView(expl); forbidden encodings   *)
(* are rejected.                                                           *)
(***************************************************************************)
EXTENDS Integers, Sequences, FiniteSets, TLC, Json

CONSTANTS
  Paths,        \* object paths that may occur (strings)
  Chans,        \* the paths that are channels
  Groups,       \* the paths that are groups (declarable)
  GroupOf,      \* [Chans -> group path]; the group need not be declared
  ObjLists,     \* candidate object lists: duplicate-free sequences over Paths
  TypeSet,      \* data types a channel may take
  Width,        \* [TypeSet -> Nat] bytes per value (String: nominal, see TdmsLayout)
  Unsized,      \* subset of TypeSet without a fixed width (String)
  MaxSegs, NVals, KVals,
  SVals,        \* size variants of unsized (string) channels: bytes per value beyond the nominal width; a string
                \* channel's raw data index carries its byte size, which may change while the value count stays
  Inherit,      \* TRUE: all valid encodings; FALSE: only the explicit encoding
  Layouts,      \* subset of {"contig","il"}
  Orders,       \* subset of {"le","be"}
  PropNames, PropVals, MaxPropObjs,
  Forbidden,    \* subset of {"nometa-first","same-unseen","type-change"}
  GenPrint      \* TRUE: print one JSON test case per state (GEN configuration)

VARIABLES
  file,    \* sequence of ENCODED segments (what is on disk)
  expl,    \* sequence of EXPLICIT segments (what was meant)
  ty,      \* [Chans -> TypeSet] data type of each channel
  status   \* "ok" | "rejected" (a forbidden encoding was appended last)
vars == <<file, expl, ty, status>>

None == -1

(* ----------------------------- helpers -------------------------------- *)
PathsIn(objs) == {objs[i].p : i \in DOMAIN objs}
PosOf(objs, p) == CHOOSE i \in DOMAIN objs : objs[i].p = p
Last(s) == s[Len(s)]
Front(s) == SubSeq(s, 1, Len(s) - 1)

RECURSIVE SumTo(_, _)
SumTo(f, n) == IF n = 0 THEN 0 ELSE f[n] + SumTo(f, n - 1)
SumSeq(s) == SumTo(s, Len(s))

RECURSIVE AppendNew(_, _)      \* append the elements of seq ps not yet in order, keeping first appearance
AppendNew(order, ps) ==
  IF ps = <<>> THEN order
  ELSE AppendNew(IF \E i \in DOMAIN order : order[i] = Head(ps) THEN order ELSE Append(order, Head(ps)), Tail(ps))

ChunkBytesOf(objs) ==   \* bytes of one chunk of raw data for an object list
  SumSeq([i \in DOMAIN objs |-> IF objs[i].has /\ objs[i].p \in Chans
                                  THEN objs[i].n * (Width[ty[objs[i].p]] + objs[i].sv) ELSE 0])

(* --------------------------- explicit layer --------------------------- *)
\* explicit segment: [objs: Seq([p, has, n, pu]), k, il, be]; pu = sequence of <<name, value>> property updates
DataObjs(objs) == SelectSeq(objs, LAMBDA o : o.has)

InterleaveOK(objs) ==
  LET d == DataObjs(objs) IN
  \/ /\ \A i \in DOMAIN d : ty[d[i].p] \notin Unsized
     /\ \A i, j \in DOMAIN d : d[i].n = d[j].n
  \/ Len(d) = 1 /\ ty[d[1].p] \in Unsized      \* single string channel flagged interleaved: read contiguously

PropUpds == {<<>>} \cup {<<<<nm, v>>>> : nm \in PropNames, v \in PropVals}

DataChoices(L) == {g \in [DOMAIN L -> {None} \cup NVals] : \A i \in DOMAIN L : L[i] \notin Chans => g[i] = None}
SizeChoices(L, f) == {g \in [DOMAIN L -> SVals] :
                        \A i \in DOMAIN L : (L[i] \notin Chans \/ f[i] = None \/ ty[L[i]] \notin Unsized) => g[i] = 0}
PropChoices(L) == {g \in [DOMAIN L -> PropUpds] : Cardinality({i \in DOMAIN L : g[i] # <<>>}) <= MaxPropObjs}

MkExpl(L, f, sv, pu, k, lay, ord) ==
  [objs |-> [i \in DOMAIN L |-> [p |-> L[i], has |-> f[i] # None, n |-> IF f[i] = None THEN 0 ELSE f[i],
                                  sv |-> sv[i], pu |-> pu[i]]],
   k |-> k, il |-> (lay = "il"), be |-> (ord = "be")]

WellFormed(E) ==
  /\ (ChunkBytesOf(E.objs) = 0) <=> (E.k = 0)
  /\ E.il => InterleaveOK(E.objs) /\ DataObjs(E.objs) # <<>>

RECURSIVE ExplOrder(_)
ExplOrder(es) == IF es = <<>> THEN <<>>
                 ELSE AppendNew(ExplOrder(Front(es)), [i \in DOMAIN Last(es).objs |-> Last(es).objs[i].p])

RECURSIVE ExplLen(_, _)
ExplLen(es, p) ==
  IF es = <<>> THEN 0
  ELSE LET e == Last(es)
           here == IF \E i \in DOMAIN e.objs : e.objs[i].p = p /\ e.objs[i].has
                   THEN e.objs[PosOf(e.objs, p)].n * e.k ELSE 0
       IN ExplLen(Front(es), p) + here

ExplTyped(es, p) == \E s \in DOMAIN es : \E i \in DOMAIN es[s].objs : es[s].objs[i].p = p /\ es[s].objs[i].has

RECURSIVE ApplyUpd(_, _)
ApplyUpd(m, us) == IF us = <<>> THEN m
                   ELSE ApplyUpd([x \in DOMAIN m \cup {Head(us)[1]} |->
                                    IF x = Head(us)[1] THEN Head(us)[2] ELSE m[x]], Tail(us))

EmptyMap == [x \in {} |-> 0]

RECURSIVE ExplProps(_, _)
ExplProps(es, p) ==
  IF es = <<>> THEN EmptyMap
  ELSE LET e == Last(es)
           before == ExplProps(Front(es), p)
       IN IF \E i \in DOMAIN e.objs : e.objs[i].p = p
          THEN ApplyUpd(before, e.objs[PosOf(e.objs, p)].pu) ELSE before

RECURSIVE Dedup(_)
Dedup(s) == IF s = <<>> THEN <<>> ELSE AppendNew(Dedup(Front(s)), <<Last(s)>>)

\* The abstract result of reading: what the API shows (C01 statement)
MkViewP(CH, GR, GO, order, lenf, tyf, propf) ==      \* parameterised by the channel set, group set and parent map
  LET chans == SelectSeq(order, LAMBDA p : p \in CH)
      declared == SelectSeq(order, LAMBDA p : p \in GR)
      implied == Dedup([i \in DOMAIN chans |-> GO[chans[i]]])
      groups == AppendNew(declared, implied)
  IN [order |-> order,
      groups |-> groups,
      gchans |-> [g \in {groups[i] : i \in DOMAIN groups} |-> SelectSeq(chans, LAMBDA c : GO[c] = g)],
      len |-> [c \in {chans[i] : i \in DOMAIN chans} |-> lenf[c]],
      ty |-> [c \in {chans[i] : i \in DOMAIN chans} |-> tyf[c]],
      props |-> [p \in {order[i] : i \in DOMAIN order} |-> propf[p]]]
MkView(order, lenf, tyf, propf) == MkViewP(Chans, Groups, GroupOf, order, lenf, tyf, propf)

ViewOf(es) ==
  MkView(ExplOrder(es),
         [c \in Chans |-> ExplLen(es, c)],
         [c \in Chans |-> IF ExplTyped(es, c) THEN ty[c] ELSE "none"],
         [p \in Paths |-> ExplProps(es, p)])

ExplicitView == ViewOf(expl)

(* --------------------------- encoding layer --------------------------- *)
\* encoded segment: [meta, newList, be, il, bytes, listed: Seq([p, kind, n, ty, props]), layout]
\* `bytes' is the size of the raw data part; `layout' is the explicit object list, carried for the byte
\* encoder of the harness only -- the reader model never looks at it.
Kinds == {"full", "same", "nodata", "unlisted"}

RECURSIVE LastFull(_, _)      \* <<n, sv>> of the most recent full raw-data index given for path p, or <<None, 0>>
LastFull(f, p) ==
  IF f = <<>> THEN <<None, 0>>
  ELSE LET s == Last(f) IN
       IF s.meta /\ \E i \in DOMAIN s.listed : s.listed[i].p = p /\ s.listed[i].kind = "full"
       THEN LET e == s.listed[CHOOSE i \in DOMAIN s.listed : s.listed[i].p = p /\ s.listed[i].kind = "full"]
            IN <<e.n, e.sv>>
       ELSE LastFull(Front(f), p)

PrevList == IF expl = <<>> THEN <<>> ELSE Last(expl).objs

ValidKind(E, i, kind, newList) ==
  LET o == E.objs[i] IN
  CASE kind = "full"     -> o.has
    [] kind = "same"     -> o.has /\ LastFull(file, o.p) = <<o.n, o.sv>>                     \* R1
    [] kind = "nodata"   -> ~o.has                                                            \* R4
    [] kind = "unlisted" -> /\ ~newList /\ i <= Len(PrevList) /\ PrevList[i].p = o.p         \* R2
                            /\ PrevList[i].has = o.has
                            /\ (o.has => PrevList[i].n = o.n /\ PrevList[i].sv = o.sv)
                            /\ o.pu = <<>>

ValidEnc(E, enc) ==
  /\ file = <<>> => enc.meta /\ enc.newList
  /\ \A i \in DOMAIN E.objs : ValidKind(E, i, enc.kinds[i], enc.newList)
  /\ ~enc.newList => /\ Len(E.objs) >= Len(PrevList)
                     /\ \A i \in DOMAIN PrevList : E.objs[i].p = PrevList[i].p
  /\ ~enc.meta => /\ ~enc.newList /\ Len(E.objs) = Len(PrevList)                               \* R3
                  /\ \A i \in DOMAIN E.objs : enc.kinds[i] = "unlisted"

ExplicitEnc(E) == [meta |-> TRUE, newList |-> TRUE,
                   kinds |-> [i \in DOMAIN E.objs |-> IF E.objs[i].has THEN "full" ELSE "nodata"]]

Encodings(E) ==
  IF ~Inherit THEN {ExplicitEnc(E)}
  ELSE {enc \in [meta : BOOLEAN, newList : BOOLEAN, kinds : [DOMAIN E.objs -> Kinds]] : ValidEnc(E, enc)}

EncSeg(E, enc) ==
  [meta |-> enc.meta, newList |-> enc.newList, be |-> E.be, il |-> E.il, k |-> E.k,
   bytes |-> E.k * ChunkBytesOf(E.objs),
   listed |-> SelectSeq([i \in DOMAIN E.objs |->
                           [p |-> E.objs[i].p, kind |-> enc.kinds[i], n |-> E.objs[i].n, sv |-> E.objs[i].sv,
                            ty |-> IF E.objs[i].p \in Chans THEN ty[E.objs[i].p] ELSE "none",
                            size |-> IF E.objs[i].p \in Chans
                                     THEN E.objs[i].n * (Width[ty[E.objs[i].p]] + E.objs[i].sv) ELSE 0,
                            props |-> E.objs[i].pu]],
                        LAMBDA e : e.kind # "unlisted"),
   layout |-> [i \in DOMAIN E.objs |-> [p |-> E.objs[i].p, has |-> E.objs[i].has, n |-> E.objs[i].n, sv |-> E.objs[i].sv,
                                        ty |-> IF E.objs[i].p \in Chans THEN ty[E.objs[i].p] ELSE "none"]]]

(* ----------------------------- reader model --------------------------- *)
\* A reader segment object (BaseSegmentObject): path, has_data, number_values, data_type ("none" if never indexed),
\* data_size (bytes of the object in one chunk: from the index for strings, else number_values x type size)
RObj(p, has, n, t, sz) == [p |-> p, has |-> has, n |-> n, ty |-> t, size |-> sz]

RECURSIVE FoldListed(_, _, _, _)
FoldListed(entries, acc, basePaths, pobjs) ==       \* one step per listed object: read_segment_objects' loop
  IF entries = <<>> \/ acc.err THEN acc ELSE
  LET e == Head(entries)
      objs == acc.objs
      full == RObj(e.p, TRUE, e.n, e.ty, e.size)
      res ==
        IF e.p \in basePaths THEN                                         \* _update_existing_object
          LET i == PosOf(objs, e.p) IN
          CASE e.kind = "nodata" -> [objs |-> [objs EXCEPT ![i].has = FALSE], err |-> FALSE]
            [] e.kind = "same"   -> [objs |-> [objs EXCEPT ![i].has = TRUE], err |-> FALSE]
            [] OTHER             -> [objs |-> [objs EXCEPT ![i] = full], err |-> FALSE]
        ELSE IF e.p \in DOMAIN pobjs THEN                                 \* _reuse_previous_object
          LET old == pobjs[e.p] IN
          CASE e.kind = "nodata" -> [objs |-> Append(objs, [old EXCEPT !.has = FALSE]), err |-> FALSE]
            [] e.kind = "same"   -> [objs |-> Append(objs, [old EXCEPT !.has = TRUE]), err |-> FALSE]
            [] OTHER             -> [objs |-> Append(objs, full), err |-> FALSE]
        ELSE                                                              \* _new_segment_object
          CASE e.kind = "nodata" -> [objs |-> Append(objs, RObj(e.p, FALSE, 0, "none", 0)), err |-> FALSE]
            [] e.kind = "same"   -> [objs |-> objs, err |-> TRUE]         \* never seen: ValueError
            [] OTHER             -> [objs |-> Append(objs, full), err |-> FALSE]
  IN FoldListed(Tail(entries), res, basePaths, pobjs)

RChunkBytes(objs) == SumSeq([i \in DOMAIN objs |-> IF objs[i].has THEN objs[i].size ELSE 0])

RInterleaveErr(s, objs) ==     \* _have_interleaved_data / InterleavedDataReader.read_data_chunks
  LET d == SelectSeq(objs, LAMBDA o : o.has) IN
  /\ s.il
  /\ ~(Len(d) = 1 /\ d[1].ty \in Unsized)
  /\ \/ \E i \in DOMAIN d : d[i].ty \in Unsized \cup {"none"}
     \/ \E i, j \in DOMAIN d : d[i].n # d[j].n

RECURSIVE ApplyListedProps(_, _)
ApplyListedProps(pm, entries) ==
  IF entries = <<>> THEN pm
  ELSE LET e == Head(entries) IN
       ApplyListedProps([pm EXCEPT ![e.p] = ApplyUpd(@, e.props)], Tail(entries))

RInitP(PS) == [lists |-> <<>>, prev |-> EmptyMap, order |-> <<>>,
               len |-> [p \in PS |-> 0], mty |-> [p \in PS |-> "none"],
               props |-> [p \in PS |-> EmptyMap], ks |-> <<>>, err |-> FALSE, partial |-> FALSE]
RInit == RInitP(Paths)

ReadSegP(PS, st, s) ==       \* PS: the set of object paths of the file
  IF st.err THEN st ELSE
  LET nprev == Len(st.lists)
      lst == IF ~s.meta
             THEN (IF nprev = 0 THEN [objs |-> <<>>, err |-> TRUE]                  \* no previous segment
                   ELSE [objs |-> st.lists[nprev], err |-> FALSE])                  \* _reuse_previous_segment_metadata
             ELSE LET base == IF s.newList \/ nprev = 0 THEN <<>> ELSE st.lists[nprev]
                  IN FoldListed(s.listed, [objs |-> base, err |-> FALSE], PathsIn(base), st.prev)
  IN IF lst.err THEN [st EXCEPT !.err = TRUE] ELSE
  LET objs == lst.objs
      cb == RChunkBytes(objs)                                                       \* _calculate_chunks
      k == IF cb = 0 THEN 0 ELSE s.bytes \div cb
      chunkErr == IF cb = 0 THEN s.bytes # 0 ELSE s.bytes % cb # 0
      typeErr == \E i \in DOMAIN objs :                                              \* _update_object_data_type
                    st.mty[objs[i].p] # "none" /\ st.mty[objs[i].p] # objs[i].ty
      ps == [i \in DOMAIN objs |-> objs[i].p]
  IN IF chunkErr \/ typeErr \/ RInterleaveErr(s, objs)
     THEN [st EXCEPT !.err = TRUE, !.partial = (cb # 0 /\ s.bytes % cb # 0)]      \* partial final chunk: TdmsTruncate's subject
     ELSE
     [lists |-> Append(st.lists, objs),
      prev  |-> [p \in DOMAIN st.prev \cup PathsIn(objs) |->
                   IF p \in PathsIn(objs) THEN objs[PosOf(objs, p)] ELSE st.prev[p]],
      order |-> AppendNew(st.order, ps),
      len   |-> [p \in PS |-> st.len[p] + (IF p \in PathsIn(objs) /\ objs[PosOf(objs, p)].has
                                             THEN objs[PosOf(objs, p)].n * k ELSE 0)],
      mty   |-> [p \in PS |-> IF p \in PathsIn(objs) THEN objs[PosOf(objs, p)].ty ELSE st.mty[p]],
      props |-> IF s.meta THEN ApplyListedProps(st.props, s.listed) ELSE st.props,
      ks    |-> Append(st.ks, k),
      err   |-> FALSE, partial |-> FALSE]

ReadSeg(st, s) == ReadSegP(Paths, st, s)

RECURSIVE ReadFileP(_, _)
ReadFileP(PS, f) == IF f = <<>> THEN RInitP(PS) ELSE ReadSegP(PS, ReadFileP(PS, Front(f)), Last(f))
ReadFile(f) == ReadFileP(Paths, f)

ReaderView(st) == MkView(st.order, st.len, st.mty, st.props)

(* ------------------------------ behaviour ----------------------------- *)
Init == /\ file = <<>> /\ expl = <<>> /\ status = "ok"
        /\ ty \in [Chans -> TypeSet]

AppendSegment ==
  /\ status = "ok" /\ Len(file) < MaxSegs
  /\ \E L \in ObjLists : \E f \in DataChoices(L) : \E sv \in SizeChoices(L, f) : \E pu \in PropChoices(L) :
     \E k \in KVals \cup {0} : \E lay \in Layouts : \E ord \in Orders :
       LET E == MkExpl(L, f, sv, pu, k, lay, ord) IN
       /\ WellFormed(E)
       /\ \E enc \in Encodings(E) :
            /\ file' = Append(file, EncSeg(E, enc))
            /\ expl' = Append(expl, E)
  /\ UNCHANGED <<ty, status>>

\* Forbidden encodings: each appends one more segment that the format does not allow
Seen(p) == \E s \in DOMAIN expl : p \in PathsIn(expl[s].objs)

BadSeg(listed, layout, meta, k, bytes) ==
  [meta |-> meta, newList |-> FALSE, be |-> FALSE, il |-> FALSE, k |-> k, bytes |-> bytes,
   listed |-> listed, layout |-> layout]

AppendForbidden ==
  /\ status = "ok" /\ Len(file) < MaxSegs
  /\ \/ /\ "nometa-first" \in Forbidden /\ file = <<>>
        /\ file' = <<BadSeg(<<>>, <<>>, FALSE, 0, 0)>>
     \/ /\ "same-unseen" \in Forbidden
        /\ \E c \in Chans : ~Seen(c) /\ \E nl \in BOOLEAN :
             file' = Append(file, [BadSeg(<<[p |-> c, kind |-> "same", n |-> 0, sv |-> 0, ty |-> ty[c], size |-> 0, props |-> <<>>]>>,
                                          <<>>, TRUE, 0, 0) EXCEPT !.newList = nl])
     \/ /\ "type-change" \in Forbidden
        /\ \E c \in Chans : \E t \in TypeSet \ {ty[c]} :
             /\ ExplTyped(expl, c)
             /\ \E n \in NVals \ {0} :
                file' = Append(file, [BadSeg(<<[p |-> c, kind |-> "full", n |-> n, sv |-> 0, ty |-> t, size |-> n * Width[t], props |-> <<>>]>>,
                                             <<[p |-> c, has |-> TRUE, n |-> n, sv |-> 0, ty |-> t]>>, TRUE, 1, n * Width[t])
                                      EXCEPT !.newList = TRUE])
  /\ status' = "rejected"
  /\ UNCHANGED <<expl, ty>>

Next == AppendSegment \/ AppendForbidden
Spec == Init /\ [][Next]_vars

(* ------------------------------ properties ---------------------------- *)
TypeOK == status \in {"ok", "rejected"} /\ Len(file) <= MaxSegs

\* C01 / C02: the reader model over the ENCODED file yields the EXPLICIT meaning
ViewsAgree == status = "ok" => LET st == ReadFile(file) IN ~st.err /\ ReaderView(st) = ExplicitView

\* C02: forbidden encodings are rejected
ForbiddenRejected == status = "rejected" => ReadFile(file).err

\* internal consistency used by the harness: number of chunks derivable from sizes
ChunksConsistent == status = "ok" => \A i \in DOMAIN file : file[i].bytes = file[i].k * ChunkBytesOf(expl[i].objs)

\* GEN: one JSON test case per reachable state (the state space is a tree: every state is a distinct file)
GenCase == GenPrint => PrintT(<<"GEN", ToJson([file |-> file, ty |-> ty, status |-> status,
                                                view |-> ExplicitView])>>)
=============================================================================
