SPECIFICATION Spec
CONSTANTS
  Paths <- c_Paths
  Chans <- c_Chans
  Groups <- c_Groups
  GroupOf <- c_GroupOf
  ObjLists <- c_ObjLists
  TypeSet <- c_TypeSet
  Width <- c_Width
  Unsized <- c_Unsized
  MaxSegs = 2
  NVals <- c_NVals
  KVals <- c_KVals
  SVals = {0}
  Inherit = FALSE
  Layouts <- c_Layouts
  Orders <- c_Orders
  PropNames <- c_PropNames
  PropVals <- c_PropVals
  MaxPropObjs = 0
  Forbidden <- c_Forbidden
  GenPrint = FALSE
INVARIANT TypeOK
INVARIANT ViewsAgree
INVARIANT ForbiddenRejected
INVARIANT ChunksConsistent
INVARIANT GenCase
CHECK_DEADLOCK FALSE
