------------------------------ MODULE TdmsLayout ------------------------------
(***************************************************************************)
(* Byte arithmetic of the TDMS container (DESIGN.md 3.2): lead-in,         *)
(* metadata sizes, chunk sizes, positions.  Files are a few hundred bytes, *)
(* so TLC's integers suffice.  Used by TdmsTruncate (C06), Trace_Writer    *)
(* (C08) and TdmsIndexFile (C09).                                          *)
(*                                                                         *)
(* A layout object is [c, n, w]: channel name, values per chunk, bytes per *)
(* value (w = 0: string; the harness then writes strings of exactly        *)
(* StrLen bytes, so a string value occupies 4 + StrLen bytes).             *)
(***************************************************************************)
EXTENDS Integers, Sequences

LeadIn == 28
StrLen == 3
PathBytes(c) == 10                 \* "/'grp'/'x'" : all channel paths of the layout models have 10 bytes

RECURSIVE SumF(_, _)
SumF(f, n) == IF n = 0 THEN 0 ELSE f[n] + SumF(f, n - 1)
Sum(s) == SumF(s, Len(s))

ValBytes(o) == IF o.w = 0 THEN 4 + StrLen ELSE o.w
ObjBytes(o) == o.n * ValBytes(o)
ChunkBytes(objs) == Sum([i \in DOMAIN objs |-> ObjBytes(objs[i])])

\* contiguous truncated chunk of `rem' bytes: leading objects whole while the remainder exceeds their size, the first
\* short one gets the whole values that fit, the rest nothing (TdmsSegment._compute_final_chunk_lengths)
RECURSIVE ContigLens(_, _, _)
ContigLens(objs, i, rem) ==
  IF i > Len(objs) THEN <<>>
  ELSE IF rem > ObjBytes(objs[i]) THEN <<objs[i].n>> \o ContigLens(objs, i + 1, rem - ObjBytes(objs[i]))
  ELSE <<rem \div objs[i].w>> \o [m \in 1..(Len(objs) - i) |-> 0]

\* metadata of a segment that lists every object with a full raw data index and no properties
ObjMeta(o) == 4 + PathBytes(o.c) + 4 + 16 + (IF o.w = 0 THEN 8 ELSE 0) + 4
MetaBytes(seg) == IF ~seg.meta THEN 0 ELSE 4 + Sum([i \in DOMAIN seg.objs |-> ObjMeta(seg.objs[i])])

DataBytes(seg) == seg.k * ChunkBytes(seg.objs)
SegBytes(seg) == LeadIn + MetaBytes(seg) + DataBytes(seg)

RECURSIVE SegPos(_, _)
SegPos(segs, j) == IF j = 1 THEN 0 ELSE SegPos(segs, j - 1) + SegBytes(segs[j - 1])
DataPos(segs, j) == SegPos(segs, j) + LeadIn + MetaBytes(segs[j])
NextPos(segs, j) == SegPos(segs, j) + SegBytes(segs[j])
FileLen(segs) == IF segs = <<>> THEN 0 ELSE NextPos(segs, Len(segs))
=============================================================================
