SPECIFICATION Spec
CONSTANTS
  Shapes2 <- c_All
  MaxIters = 3
  Dense = FALSE
  SharedCursorBug = FALSE
  MaxHist = 3
  GenPrint = TRUE
  StaleIndex = FALSE
  ExactFinalChunk = TRUE
  ZeroLenSlice = FALSE
INVARIANT HistoryIndependent
INVARIANT GenCase
CHECK_DEADLOCK FALSE
