SPECIFICATION Spec
CONSTANTS
  Paths <- c_Paths
  Chans <- c_Chans
  Groups <- c_Groups
  GroupOf <- c_GroupOf
  ObjLists <- c_ObjLists
  TypeSet <- c_TypeSetQ
  Width <- c_Width
  Unsized <- c_Unsized
  MaxSegs = 2
  NVals <- c_NVals
  KVals <- c_KVals
  SVals = {0}
  Inherit = FALSE
  Layouts <- c_Layouts
  Orders <- c_Orders
  PropNames <- c_PropNames
  PropVals <- c_PropVals
  MaxPropObjs = 1
  Forbidden <- c_Forbidden
  GenPrint = FALSE
INVARIANT ViewsAgree
INVARIANT DefragPreserves
INVARIANT GenDefrag
CHECK_DEADLOCK FALSE
