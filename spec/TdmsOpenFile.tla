----------------------------- MODULE TdmsOpenFile -----------------------------
(***************************************************************************)
(* One lazily opened file and the histories of read operations on it       *)
(* (DESIGN.md 3.4): C05, and the access-path agreement of C03.             *)
(*                                                                         *)
(* Hidden state of the open file, as in the code:                          *)
(*   cursor - position of the one shared stream (TdmsReader._file)         *)
(*   cache  - per channel, the chunk kept by TdmsChannel._read_at_index    *)
(*   iters  - live generators: channel.data_chunks() / TdmsFile.data_chunks *)
(* Every public read is one action; `obs' holds the action just taken with  *)
(* the result the algorithm models produce in the CURRENT hidden state.     *)
(* HistoryIndependent says that this equals the result on a fresh file.     *)
(***************************************************************************)
EXTENDS TdmsDataOps

CONSTANTS
  Shapes2,          \* two-channel file shapes: [il, segs: Seq([nx, ny, k, lastx, lasty])]
  MaxIters,         \* live generators
  Dense,            \* TRUE: every index / window of each channel; FALSE: a representative set
  SharedCursorBug,  \* TRUE models the pinned TdmsFile.data_chunks(): next chunk read from the shared cursor (D4)
  MaxHist,          \* 0: no history (finite state graph, model checking); n > 0: record and bound the history (GEN)
  GenPrint

VARIABLES sh, cursor, cache, iters, obs, hist
vars == <<sh, cursor, cache, iters, obs, hist>>

Chans == {"x", "y"}

\* the single-channel shape (TdmsDataOps vocabulary) of channel c
SegsOf(s, c) ==
  [j \in DOMAIN s.segs |->
     LET g == s.segs[j]
         n == IF c = "x" THEN g.nx ELSE g.ny
         last == IF c = "x" THEN g.lastx ELSE g.lasty
     IN IF n = 0 THEN [pres |-> FALSE, n |-> 0, k |-> 0, last |-> 0]
        ELSE [pres |-> TRUE, n |-> n, k |-> g.k, last |-> last]]

LenOf(s, c) == TotalLen(SegsOf(s, c))

(* ------------------------- chunk streams (abstract) --------------------- *)
\* channel.data_chunks(): non-empty chunks of the channel in file order; an interleaved segment is one block
RECURSIVE ChanStreamUpTo(_, _, _)
ChanStreamUpTo(s, c, j) ==
  IF j = 0 THEN <<>>
  ELSE LET segs == SegsOf(s, c)  g == segs[j]
           here == IF ~g.pres THEN <<>>
                   ELSE IF s.il THEN <<[first |-> Base(segs, j), count |-> Vals(g)]>>
                   ELSE [q \in 1..g.k |-> [first |-> Base(segs, j) + (q - 1) * g.n,
                                           count |-> IF q = g.k THEN g.last ELSE g.n]]
       IN ChanStreamUpTo(s, c, j - 1) \o SelectSeq(here, LAMBDA ch : ch.count > 0)
ChanStream(s, c) == ChanStreamUpTo(s, c, Len(s.segs))

\* TdmsFile.data_chunks(): per chunk (per segment when interleaved) the part of every channel; offsets = first token
RECURSIVE FileStreamUpTo(_, _)
FileStreamUpTo(s, j) ==
  IF j = 0 THEN <<>>
  ELSE LET sx == SegsOf(s, "x")  sy == SegsOf(s, "y")  g == s.segs[j]
           part(segs, q) == IF ~segs[j].pres THEN [first |-> Base(segs, j), count |-> 0]
                            ELSE IF s.il THEN [first |-> Base(segs, j), count |-> Vals(segs[j])]
                            ELSE [first |-> Base(segs, j) + (q - 1) * segs[j].n,
                                  count |-> IF q = segs[j].k THEN segs[j].last ELSE segs[j].n]
           here == IF s.il THEN <<[seg |-> j, chunk |-> 0, x |-> part(sx, 1), y |-> part(sy, 1)]>>
                   ELSE [q \in 1..g.k |-> [seg |-> j, chunk |-> q - 1, x |-> part(sx, q), y |-> part(sy, q)]]
       IN FileStreamUpTo(s, j - 1) \o SelectSeq(here, LAMBDA ch : ch.x.count + ch.y.count > 0)
FileStream(s) == FileStreamUpTo(s, Len(s.segs))

(* ------------------------------ requests -------------------------------- *)
IndexSet(L) == IF Dense THEN (-(L + 1))..(L + 1)
               ELSE {i \in {0, 1, L \div 2, L - 1, L - 3, L - 4, L - 5, -1, -L, L} : TRUE}
WindowSet(L) == IF Dense THEN {<<o, l>> : o \in 0..(L + 1), l \in {NoneV} \cup 0..(L + 1)}
                ELSE {w \in {<<0, NoneV>>, <<1, 2>>, <<L \div 2, 1>>, <<L - 2, 5>>, <<L - 6, 3>>, <<0, 1>>, <<L, 1>>} : w[1] >= 0}
                     \cup {<<-1, 1>>}          \* a request that raises (negative offset): must leave no state behind
SliceSet(L) == {<<NoneV, NoneV, -1>>, <<1, L, 2>>, <<-2, NoneV, NoneV>>, <<L, 0, -2>>, <<0, 0, 0>>}

(* ------------------------------ actions --------------------------------- *)
NoIter == [kind |-> "none", ch |-> "x", n |-> 0]
NoObs == [op |-> "none"]

Init == /\ sh \in Shapes2
        /\ cursor = <<0, 0>>
        /\ cache = [c \in Chans |-> <<>>]
        /\ iters = [i \in 1..MaxIters |-> NoIter]
        /\ obs = NoObs /\ hist = <<>>

Record(o) == /\ obs' = o
             /\ hist' = IF MaxHist = 0 THEN hist ELSE Append(hist, o)
CanAct == MaxHist = 0 \/ Len(hist) < MaxHist

\* where the shared stream is left after fetching chunk <<j, q>> of channel c (contiguous: x lies before y in a chunk)
AfterFetch(c, ch) ==
  LET g == sh.segs[ch[1]] IN
  IF ~sh.il /\ (c = "y" \/ g.ny = 0) THEN <<ch[1], ch[2] + 1>> ELSE <<-1, -1>>      \* <<-1,-1>>: somewhere else

Index(c, i) ==
  /\ CanAct
  /\ LET segs == SegsOf(sh, c)
         a == AlgIndex(segs, i)
         L == TotalLen(segs)
         ii == IF i < 0 THEN L + i ELSE i
         hit == a.out.err = "" /\ cache[c] # <<>> /\ Overlapping(segs, ii, ii + 1) = {cache[c]}
         \* _read_at_index: a cache hit answers from the cached chunk, a miss fetches the chunk holding the index
         res == IF hit THEN R(<<ChunkTokens(segs, cache[c][1], cache[c][2])
                                   [ii - (Base(segs, cache[c][1]) + cache[c][2] * segs[cache[c][1]].n) + 1]>>)
                ELSE a.out
     IN /\ Record([op |-> "index", ch |-> c, i |-> i, res |-> res])
        /\ cache' = IF a.out.err = "" /\ ~hit THEN [cache EXCEPT ![c] = a.chunk] ELSE cache
        /\ cursor' = IF a.out.err = "" /\ ~hit THEN AfterFetch(c, a.chunk) ELSE cursor
  /\ UNCHANGED <<sh, iters>>

Window(c, off, len) ==
  /\ CanAct
  /\ LET a == AlgWindow(SegsOf(sh, c), sh.il, off, len)
     IN /\ Record([op |-> "window", ch |-> c, off |-> off, len |-> len, res |-> Delivered(a)])
        /\ cursor' = IF a.tags = {} THEN cursor ELSE <<-1, -1>>
  /\ UNCHANGED <<sh, cache, iters>>

Slice(c, start, stop, step) ==
  /\ CanAct
  /\ Record([op |-> "slice", ch |-> c, start |-> start, stop |-> stop, step |-> step,
             res |-> AlgSlice(SegsOf(sh, c), sh.il, start, stop, step)])
  /\ cursor' = <<-1, -1>>
  /\ UNCHANGED <<sh, cache, iters>>

IterNew(i, kind, c) ==
  /\ CanAct /\ iters[i].kind = "none"
  /\ \A j \in 1..(i - 1) : iters[j].kind # "none"          \* symmetry: slots are filled in order
  /\ iters' = [iters EXCEPT ![i] = [kind |-> kind, ch |-> c, n |-> 0]]
  /\ Record([op |-> "iternew", it |-> i, kind |-> kind, ch |-> c])
  /\ UNCHANGED <<sh, cursor, cache>>

\* next non-empty chunk of a generator, or StopIteration
IterNext(i) ==
  /\ CanAct /\ iters[i].kind # "none"
  /\ LET it == iters[i] IN
     IF it.kind = "chan"
     THEN LET st == ChanStream(sh, it.ch) IN
          \* the channel stream re-seeks after every yielded chunk: position independent
          IF it.n < Len(st)
          THEN /\ Record([op |-> "next", it |-> i, kind |-> "chan", ch |-> it.ch, k |-> it.n + 1,
                          res |-> [stop |-> FALSE, x |-> st[it.n + 1], y |-> st[it.n + 1]]])
               /\ iters' = [iters EXCEPT ![i].n = it.n + 1]
               /\ cursor' = <<-1, -1>>
          ELSE /\ Record([op |-> "next", it |-> i, kind |-> "chan", ch |-> it.ch, k |-> it.n + 1,
                          res |-> [stop |-> TRUE, x |-> [first |-> 0, count |-> 0], y |-> [first |-> 0, count |-> 0]]])
               /\ iters' = [iters EXCEPT ![i] = NoIter]
               /\ UNCHANGED cursor
     ELSE LET st == FileStream(sh) IN
          IF it.n < Len(st)
          THEN LET item == st[it.n + 1]
                   \* pinned code: within a segment the next chunk is read from wherever the shared cursor is
                   contin == item.chunk > 0
                   wrong == SharedCursorBug /\ contin /\ cursor # <<item.seg, item.chunk>>
                   bad == [first |-> Bad, count |-> 1]
               IN /\ Record([op |-> "next", it |-> i, kind |-> "file", ch |-> "x", k |-> it.n + 1,
                             res |-> [stop |-> FALSE, x |-> IF wrong THEN bad ELSE item.x,
                                      y |-> IF wrong THEN bad ELSE item.y]])
                  /\ iters' = [iters EXCEPT ![i].n = it.n + 1]
                  /\ cursor' = <<item.seg, item.chunk + 1>>
          ELSE /\ Record([op |-> "next", it |-> i, kind |-> "file", ch |-> "x", k |-> it.n + 1,
                          res |-> [stop |-> TRUE, x |-> [first |-> 0, count |-> 0], y |-> [first |-> 0, count |-> 0]]])
               /\ iters' = [iters EXCEPT ![i] = NoIter]
               /\ UNCHANGED cursor
  /\ UNCHANGED <<sh, cache>>

Next ==
  \/ \E c \in Chans : \E i \in IndexSet(LenOf(sh, c)) : Index(c, i)
  \/ \E c \in Chans : \E w \in WindowSet(LenOf(sh, c)) : Window(c, w[1], w[2])
  \/ \E c \in Chans : \E sl \in SliceSet(LenOf(sh, c)) : Slice(c, sl[1], sl[2], sl[3])
  \/ \E i \in 1..MaxIters : \E c \in Chans : IterNew(i, "chan", c)
  \/ \E i \in 1..MaxIters : IterNew(i, "file", "x")
  \/ \E i \in 1..MaxIters : IterNext(i)
Spec == Init /\ [][Next]_vars

(* ------------------------------ properties ------------------------------ *)
\* the result of the same request on a freshly opened file
Fresh(o) ==
  CASE o.op = "index"  -> AbsIndex(LenOf(sh, o.ch), o.i)
    [] o.op = "window" -> IF o.off < 0 THEN E("ValueError") ELSE AbsWindow(LenOf(sh, o.ch), o.off, o.len)
    [] o.op = "slice"  -> AbsSlice(LenOf(sh, o.ch), o.start, o.stop, o.step)
    [] o.op = "next"   ->
         IF o.kind = "chan"
         THEN LET st == ChanStream(sh, o.ch) IN
              IF o.k <= Len(st) THEN [stop |-> FALSE, x |-> st[o.k], y |-> st[o.k]]
              ELSE [stop |-> TRUE, x |-> [first |-> 0, count |-> 0], y |-> [first |-> 0, count |-> 0]]
         ELSE LET st == FileStream(sh) IN
              IF o.k <= Len(st) THEN [stop |-> FALSE, x |-> st[o.k].x, y |-> st[o.k].y]
              ELSE [stop |-> TRUE, x |-> [first |-> 0, count |-> 0], y |-> [first |-> 0, count |-> 0]]

\* C05: every read yields what it would yield on a freshly opened file; the k-th next() of a generator yields the
\* k-th chunk of the full chunk sequence and StopIteration only after the last one
ObsOK(o) == o.op \in {"index", "window", "slice", "next"} => o.res = Fresh(o)
HistoryIndependent == ObsOK(obs)
\* the same as an action property, so that model checking may hide obs/hist behind a VIEW and still examine the
\* result of every transition
HistoryIndependentAct == [][ObsOK(obs')]_vars
HiddenState == <<sh, cursor, cache, iters>>

\* C03 (specification level): the access paths agree - concatenating either chunk stream gives the channel's data,
\* and a chunk's offset is the running count of values delivered before it
RECURSIVE StreamOK(_, _, _)
StreamOK(st, i, run) == i > Len(st) \/ (st[i].first = run /\ StreamOK(st, i + 1, run + st[i].count))
RECURSIVE FileStreamOK(_, _, _, _)
FileStreamOK(st, i, rx, ry) ==
  i > Len(st) \/ (/\ st[i].x.count > 0 => st[i].x.first = rx
                  /\ st[i].y.count > 0 => st[i].y.first = ry
                  /\ FileStreamOK(st, i + 1, rx + st[i].x.count, ry + st[i].y.count))
RECURSIVE SumCounts(_, _)
SumCounts(st, i) == IF i = 0 THEN 0 ELSE st[i].count + SumCounts(st, i - 1)
PathsAgree ==
  /\ \A c \in Chans : LET st == ChanStream(sh, c) IN StreamOK(st, 1, 0) /\ SumCounts(st, Len(st)) = LenOf(sh, c)
  /\ FileStreamOK(FileStream(sh), 1, 0, 0)

(* ------------------------- access paths (C03) --------------------------- *)
\* Every way of obtaining a channel's data, with the mode in which it is available and whether it applies scaling.
\* All of them denote the same abstract result: the channel's token sequence 0..L-1 (chunk streams: in pieces
\* whose offsets are the running count).
AccessPaths ==
  { [path |-> "slice_all",   modes |-> {"eager", "lazy"}, scaled |-> TRUE,  stream |-> "none"],
    [path |-> "ellipsis",    modes |-> {"eager", "lazy"}, scaled |-> TRUE,  stream |-> "none"],
    [path |-> "read_data",   modes |-> {"eager", "lazy"}, scaled |-> TRUE,  stream |-> "none"],
    [path |-> "data",        modes |-> {"eager"},         scaled |-> TRUE,  stream |-> "none"],
    [path |-> "iterate",     modes |-> {"eager", "lazy"}, scaled |-> TRUE,  stream |-> "none"],
    [path |-> "int_index",   modes |-> {"eager", "lazy"}, scaled |-> TRUE,  stream |-> "none"],
    [path |-> "chan_chunks", modes |-> {"lazy"},          scaled |-> TRUE,  stream |-> "chan"],
    [path |-> "file_chunks", modes |-> {"lazy"},          scaled |-> TRUE,  stream |-> "file"],
    [path |-> "file_chunks_listed", modes |-> {"lazy"},   scaled |-> TRUE,  stream |-> "file"],   \* list(...) first, inspect later
    [path |-> "read_data_unscaled", modes |-> {"eager", "lazy"}, scaled |-> FALSE, stream |-> "none"],
    [path |-> "raw_data",    modes |-> {"eager"},         scaled |-> FALSE, stream |-> "none"] }
\* sources: a path (str / pathlib), an in-memory stream, a caller's file object, a file object of another kind whose
\* descriptor belongs to a different file (gzip.open: the position and size that count are the stream's, not the file's)
Configs == [memmap : BOOLEAN, rawts : BOOLEAN, source : {"path", "pathlib", "stream", "fileobj", "gzip"}]

\* behaviour used by the C03 GEN configuration: choose a shape, nothing else happens
AccInit == Init
AccNext == UNCHANGED vars
AccSpec == AccInit /\ [][AccNext]_vars
GenAccess == GenPrint =>
  PrintT(<<"GEN", ToJson([shape |-> sh, lenx |-> LenOf(sh, "x"), leny |-> LenOf(sh, "y"),
                          chanx |-> ChanStream(sh, "x"), chany |-> ChanStream(sh, "y"), file |-> FileStream(sh),
                          paths |-> AccessPaths, configs |-> Configs])>>)

\* GEN: a behaviour is printed when its history is complete
GenCase == (GenPrint /\ MaxHist > 0 /\ Len(hist) = MaxHist) =>
  PrintT(<<"GEN", ToJson([shape |-> sh, lenx |-> LenOf(sh, "x"), leny |-> LenOf(sh, "y"), hist |-> hist])>>)
=============================================================================
