SPECIFICATION Spec
CONSTANTS
  Kinds = {"fc", "dl"}
  WidthSet = {5}
  RowSet = {1, 3}
  KSet = {1, 2}
  Orders = {"le", "be"}
  NBufs = {1, 2}
  MaxChans = 2
  OffSet = {0, 3}
  SizeSet = {1, 2}
  Split = FALSE
  GenPrint = FALSE
INVARIANT InBounds
INVARIANT TruncOK
INVARIANT GenCase
CHECK_DEADLOCK FALSE
