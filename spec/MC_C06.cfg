SPECIFICATION Spec
CONSTANTS
  Files <- c_Files
  MaxSegs6 = 1
  Widths = {1, 4, 0}
  NVals6 = {1, 2}
  KVals6 = {1, 2}
  GenPrint = FALSE
INVARIANT NoFailure
INVARIANT PrefixAndFloor
INVARIANT StatusExact
INVARIANT CompleteAtEnd
INVARIANT GenCase
CHECK_DEADLOCK FALSE
