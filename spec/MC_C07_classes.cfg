SPECIFICATION Spec
CONSTANTS
  Root <- R
  GroupsW <- c_Groups
  ChansW <- c_ChansOne
  GroupOfW <- c_GroupOf
  GroupRank <- c_GroupRank
  ObjSeqs <- c_SeqsOne
  ArrayClasses <- c_AllArrayClasses
  Lens = {0, 1, 3}
  ValueClasses = {"int_small"}
  PropNamesW = {}
  MaxPropObjsW = 0
  MaxCalls = 2
  MaxSessions = 2
  MaxRefused = 0
  GenPrint = FALSE
INVARIANT RoundTrip
INVARIANT ParentsFirst
INVARIANT GenCase
CHECK_DEADLOCK FALSE
