---- MODULE MC_C01_types ----
(* C01 slice (ii): type-heavy. Two channels; every ordered pair of the 17 readable types x contiguous /
   interleaved x 1 or 3 chunks x little / big endian. *)
EXTENDS TdmsSegments
A == "/'g'/'a'"
B == "/'g'/'b'"
c_Paths == {A, B}
c_Chans == {A, B}
c_Groups == {}
c_GroupOf == [c \in {A, B} |-> "/'g'"]
c_ObjLists == {<<A, B>>, <<B>>}
c_TypeSet == {"Int8", "Int16", "Int32", "Int64", "Uint8", "Uint16", "Uint32", "Uint64", "SingleFloat", "DoubleFloat",
              "SingleFloatWithUnit", "DoubleFloatWithUnit", "String", "Boolean", "TimeStamp",
              "ComplexSingleFloat", "ComplexDoubleFloat"}
c_Width == [t \in c_TypeSet |->
   CASE t \in {"Int8", "Uint8", "Boolean"} -> 1
     [] t \in {"Int16", "Uint16"} -> 2
     [] t \in {"Int32", "Uint32", "SingleFloat", "SingleFloatWithUnit"} -> 4
     [] t \in {"Int64", "Uint64", "DoubleFloat", "DoubleFloatWithUnit", "ComplexSingleFloat"} -> 8
     [] t \in {"TimeStamp", "ComplexDoubleFloat"} -> 16
     [] OTHER -> 6]
c_Unsized == {"String"}
c_NVals == {2, 3}
c_KVals == {1, 3}
c_Layouts == {"contig", "il"}
c_Orders == {"le", "be"}
c_PropNames == {}
c_PropVals == {}
c_Forbidden == {}
====
