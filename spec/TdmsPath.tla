------------------------------- MODULE TdmsPath -------------------------------
(***************************************************************************)
(* Object paths (DESIGN.md 3.9): C16.  A name is a sequence of characters; *)
(* only the quote and the slash are special.  Encode mirrors               *)
(* common._components_to_path (quote doubling, joining); the decoder is    *)
(* the character-pair scanner of common._path_components, one step per     *)
(* consumed pair, its two nested loops being the two control states.       *)
(* Decode(Encode(g, c)) = <<g, c>>; hence Encode is injective.             *)
(***************************************************************************)
EXTENDS Integers, Sequences, TLC, Json

CONSTANTS Alphabet, MaxLen, GenPrint
Q == "'"
S == "/"

RECURSIVE SeqsUpTo(_, _)
SeqsUpTo(A, n) == IF n = 0 THEN {<<>>}
                  ELSE LET r == SeqsUpTo(A, n - 1) IN r \cup {Append(s, x) : s \in {t \in r : Len(t) = n - 1}, x \in A}
Names == SeqsUpTo(Alphabet, MaxLen)

RECURSIVE Doubled(_)
Doubled(n) == IF n = <<>> THEN <<>> ELSE (IF Head(n) = Q THEN <<Q, Q>> ELSE <<Head(n)>>) \o Doubled(Tail(n))
EncName(n) == <<Q>> \o Doubled(n) \o <<Q>>
\* comps: <<>> (root), <<g>> (group), <<g, c>> (channel)
RECURSIVE Encode(_)
Encode(comps) == IF comps = <<>> THEN <<S>>
                 ELSE IF Len(comps) = 1 THEN <<S>> \o EncName(comps[1])
                 ELSE <<S>> \o EncName(comps[1]) \o Encode(Tail(comps))

(* ---------- the scanner: iterates over pairs (path[i], path[i+1] or None) ---------- *)
None == "<none>"
At(p, i) == IF i <= Len(p) THEN p[i] ELSE None
\* scanner state: [i: index of the next pair, mode: "outer" | "inner", comp, out, st: "run" | "done" | "error"]
ScanInit == [i |-> 1, mode |-> "outer", comp |-> <<>>, out |-> <<>>, st |-> "run"]
ScanStep(p, z) ==
  IF z.st # "run" THEN z
  ELSE IF z.i > Len(p) THEN [z EXCEPT !.st = "done"]                      \* StopIteration: return
  ELSE LET ch == p[z.i]  nx == At(p, z.i + 1) IN
  IF z.mode = "outer" THEN
       IF ch # S THEN [z EXCEPT !.st = "error"]                            \* expected "/"
       ELSE IF nx # None /\ nx # Q THEN [z EXCEPT !.st = "error"]          \* expected "'"
       ELSE IF z.i + 1 > Len(p) THEN [z EXCEPT !.st = "done", !.i = z.i + 1]   \* next(chars) raises StopIteration
       ELSE [z EXCEPT !.i = z.i + 2, !.mode = "inner", !.comp = <<>>]      \* consume the "'"
  ELSE IF ch = Q /\ nx = Q THEN [z EXCEPT !.comp = Append(z.comp, Q), !.i = z.i + 2]    \* consume second "'"
       ELSE IF ch = Q THEN [z EXCEPT !.out = Append(z.out, z.comp), !.mode = "outer", !.i = z.i + 1]
       ELSE [z EXCEPT !.comp = Append(z.comp, ch), !.i = z.i + 1]

RECURSIVE Scan(_, _)
Scan(p, z) == IF z.st # "run" THEN z ELSE Scan(p, ScanStep(p, z))
Decode(p) == Scan(p, ScanInit)

(* ------------------------------ behaviour ------------------------------- *)
VARIABLES comps, path, z
vars == <<comps, path, z>>

Init == /\ comps \in {<<>>} \cup {<<g>> : g \in Names} \cup {<<g, c>> : g \in Names, c \in Names}
        /\ path = Encode(comps) /\ z = ScanInit
Step == z.st = "run" /\ z' = ScanStep(path, z) /\ UNCHANGED <<comps, path>>
Spec == Init /\ [][Step]_vars

\* C16: decoding what was encoded gives back the names (the scanner never errs on an encoded path)
RoundTrip == /\ z.st # "error"
             /\ z.st = "done" => z.out = comps
\* the functional decoder used for trace validation agrees with the stepwise one
FunctionalAgrees == z.st = "done" => Decode(path).out = z.out

GenCase == (GenPrint /\ z = ScanInit) => PrintT(<<"GEN", ToJson([comps |-> comps, path |-> path])>>)
=============================================================================
