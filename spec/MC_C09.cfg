SPECIFICATION Spec
CONSTANTS
  Files <- c_Files
  MaxSegs6 = 2
  Widths = {4, 0}
  NVals6 = {2}
  KVals6 = {1, 2}
  GenPrint = FALSE
INVARIANT IndexTransparent
INVARIANT IndexPositions
INVARIANT IndexOnlyComplete
INVARIANT GenCase
CHECK_DEADLOCK FALSE
