----------------------------- MODULE TdmsTruncate -----------------------------
(***************************************************************************)
(* Crash points (DESIGN.md 3.5): C06.  A well-formed file is cut at byte   *)
(* offset c, 4 <= c <= FileLen.  The READER MODEL mirrors                  *)
(* TdmsReader._read_lead_in (clamping, incomplete flag, dropping a segment *)
(* whose metadata is cut), TdmsSegment._calculate_chunks and               *)
(* _compute_final_chunk_lengths.  The STATEMENT is written independently:  *)
(* per channel the truncated length is at most the full length (the        *)
(* values are then a prefix: tokens are positions), at least the values of *)
(* all segments lying wholly before the cut, and the incomplete flag is    *)
(* set exactly when the cut falls inside a segment's raw data.             *)
(***************************************************************************)
EXTENDS TdmsLayout, FiniteSets, TLC, Json

CONSTANTS
  Files,        \* set of files: [segs: Seq([meta, il, k, objs: Seq([c, n, w])]), marker: BOOLEAN]
  GenPrint

VARIABLES f, cut
vars == <<f, cut>>

Chans == {"x", "y"}
Min(a, b) == IF a < b THEN a ELSE b

\* the effective object list of segment j (a segment without metadata reuses the previous list)
RECURSIVE ObjsOf(_, _)
ObjsOf(segs, j) == IF segs[j].meta \/ j = 1 THEN segs[j].objs ELSE ObjsOf(segs, j - 1)
\* layout arithmetic must use the effective lists
Eff(segs) == [j \in DOMAIN segs |-> [segs[j] EXCEPT !.objs = ObjsOf(segs, j)]]

FullVals(segs, c, j) ==   \* values of channel c in segment j of the complete file
  LET objs == segs[j].objs IN
  Sum([i \in DOMAIN objs |-> IF objs[i].c = c THEN objs[i].n * segs[j].k ELSE 0])
RECURSIVE FullLenUpTo(_, _, _)
FullLenUpTo(segs, c, j) == IF j = 0 THEN 0 ELSE FullLenUpTo(segs, c, j - 1) + FullVals(segs, c, j)

(* ----------------------------- reader model ----------------------------- *)
\* _compute_final_chunk_lengths for a non-DAQmx segment: values per object in the partial chunk of `rem' bytes
FinalLens(seg, rem, incomplete) ==
  LET objs == seg.objs  cb == ChunkBytes(objs) IN
  IF \E i \in DOMAIN objs : objs[i].w = 0 THEN [i \in DOMAIN objs |-> 0]          \* unsized data: nothing
  ELSE IF seg.il \/ ~incomplete THEN [i \in DOMAIN objs |-> (objs[i].n * rem) \div cb]
  ELSE ContigLens(objs, 1, rem)

\* one step of the metadata walk; st = [pos, kept: Seq([j, chunks, final (seq or <<>>), incomplete]), stop]
ReadSegment(segs, c, st, j) ==
  IF st.stop THEN st ELSE
  LET pos == SegPos(segs, j)
      isLast == j = Len(segs)
      marker == isLast /\ f.marker
  IN IF c - pos < LeadIn THEN [st EXCEPT !.stop = TRUE]                             \* short lead-in: EOFError
     ELSE
     LET dataPos == DataPos(segs, j)
         declared == NextPos(segs, j)
         nextPos == IF marker THEN c ELSE Min(declared, c)
         incomplete == marker \/ declared > c
     IN IF incomplete /\ nextPos < dataPos THEN [st EXCEPT !.stop = TRUE]           \* metadata incomplete: dropped
        ELSE
        LET total == nextPos - dataPos
            cb == ChunkBytes(segs[j].objs)
            rem == IF cb = 0 THEN 0 ELSE total % cb
            chunks == IF cb = 0 THEN 0 ELSE (total \div cb) + (IF rem = 0 THEN 0 ELSE 1)
            final == IF rem = 0 THEN <<>> ELSE FinalLens(segs[j], rem, incomplete)
        IN [pos |-> nextPos, stop |-> nextPos >= c,
            kept |-> Append(st.kept, [j |-> j, chunks |-> chunks, final |-> final, incomplete |-> incomplete,
                                      bad |-> cb = 0 /\ total # 0])]

RECURSIVE Walk(_, _, _)
Walk(segs, c, j) == IF j = 0 THEN [pos |-> 0, stop |-> FALSE, kept |-> <<>>]
                    ELSE ReadSegment(segs, c, Walk(segs, c, j - 1), j)
ReadCut(segs, c) == Walk(segs, c, Len(segs))

KeptVals(segs, ch, kp) ==
  LET objs == segs[kp.j].objs IN
  Sum([i \in DOMAIN objs |->
         IF objs[i].c # ch THEN 0
         ELSE IF kp.final = <<>> THEN objs[i].n * kp.chunks
         ELSE objs[i].n * (kp.chunks - 1) + kp.final[i]])
TruncLen(segs, c, ch) == LET r == ReadCut(segs, c) IN Sum([m \in DOMAIN r.kept |-> KeptVals(segs, ch, r.kept[m])])
TruncIncomplete(segs, c) == LET r == ReadCut(segs, c) IN r.kept # <<>> /\ r.kept[Len(r.kept)].incomplete
TruncError(segs, c) == LET r == ReadCut(segs, c) IN \E m \in DOMAIN r.kept : r.kept[m].bad

(* ------------------------------ statement ------------------------------- *)
\* values of the segments lying wholly before the cut
WholeBefore(segs, c, ch) ==
  Sum([j \in DOMAIN segs |-> IF NextPos(segs, j) <= c THEN FullVals(segs, ch, j) ELSE 0])
\* the cut falls inside the raw data of some segment (with the marker: the last segment's length is unknown, it is
\* reported incomplete whenever its metadata is complete)
CutInRawData(segs, c) ==
  \E j \in DOMAIN segs :
     \/ DataPos(segs, j) <= c /\ c < NextPos(segs, j)
     \/ j = Len(segs) /\ f.marker /\ DataPos(segs, j) <= c

(* ------------------------------ behaviour ------------------------------- *)
\* cut = -1: file chosen, nothing evaluated yet (keeps the single-threaded initial-state phase cheap; the per-file
\* work is done when the workers take the Start step)
Init == f \in Files /\ cut = -1
Start == cut = -1 /\ cut' = 0 /\ UNCHANGED f
Cut  == cut = 0 /\ cut' \in 4..FileLen(Eff(f.segs)) /\ UNCHANGED f
Next == Start \/ Cut
Spec == Init /\ [][Next]_vars

E == Eff(f.segs)

\* C06 on the reader model
NoFailure == cut > 0 => ~TruncError(E, cut)
PrefixAndFloor == cut > 0 => \A ch \in Chans :
   /\ TruncLen(E, cut, ch) <= FullLenUpTo(E, ch, Len(E))
   /\ TruncLen(E, cut, ch) >= WholeBefore(E, cut, ch)
StatusExact == cut > 0 => (TruncIncomplete(E, cut) <=> CutInRawData(E, cut))
CompleteAtEnd == cut = FileLen(E) /\ ~f.marker => \A ch \in Chans : TruncLen(E, cut, ch) = FullLenUpTo(E, ch, Len(E))

\* GEN: one case per file with every cut offset
GenCase == (GenPrint /\ cut = 0) =>
  PrintT(<<"GEN", ToJson([file |-> f, fileLen |-> FileLen(E),
                          pos |-> [j \in DOMAIN E |-> <<SegPos(E, j), DataPos(E, j), NextPos(E, j)>>],
                          full |-> [ch \in Chans |-> FullLenUpTo(E, ch, Len(E))],
                          cuts |-> {[c |-> c, floor |-> [ch \in Chans |-> WholeBefore(E, c, ch)],
                                     model |-> [ch \in Chans |-> TruncLen(E, c, ch)],
                                     incomplete |-> CutInRawData(E, c)] : c \in 4..FileLen(E)}])>>)
=============================================================================
