SPECIFICATION Spec
CONSTANTS
  MaxHist = 4
  GenPrint = FALSE
INVARIANT NoLibraryFd
INVARIANT OnlyDataWhileLazy
INVARIANT CallerStreamsNeverClosed
INVARIANT ReadAfterCloseRaises
INVARIANT GenCase
CHECK_DEADLOCK FALSE
