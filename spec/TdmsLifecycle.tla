----------------------------- MODULE TdmsLifecycle -----------------------------
(***************************************************************************)
(* Which files npTDMS holds open, and when (DESIGN.md 3.12): C20.          *)
(* State: the set of descriptors the LIBRARY opened and still holds        *)
(* (roles "data" / "index"), whether a caller-supplied stream was closed,  *)
(* and the state of the API object.  The input is chosen up front: source  *)
(* (path / stream), index file situation, and a fault that makes reading   *)
(* raise at a known stage (the fault is a property of the input file).     *)
(***************************************************************************)
EXTENDS Integers, Sequences, FiniteSets, TLC, Json

CONSTANTS MaxHist, GenPrint

VARIABLES cfg, api, libfds, callerClosed, obs, hist,
          gen      \* a chunk generator started on the open file: [kind, taken] (kind "none": no generator; taken: chunks consumed)
vars == <<cfg, api, libfds, callerClosed, obs, hist, gen>>

Sources == {"path", "stream"}
IndexKinds == {"none", "index", "mismatch", "indexonly"}
\* stage at which reading the input raises: "meta" faults raise while metadata is read, "data" faults at the
\* first read of raw data
\* "interrupt": an exception that is not an Exception (KeyboardInterrupt: the user presses Ctrl-C) arrives while the
\* library reads the metadata - "returns or raises" covers it like any other
Faults == {"none", "bad_tag", "bad_tag_second", "unknown_type", "type_change", "same_unseen", "interrupt"}
\* with an index file beside the data, metadata comes from the index: a wrong tag in the data file is then met
\* only when raw data is read (segment start check)
TagFault(c) == c.fault \in {"bad_tag", "bad_tag_second"}
MetaFault(c) == c.fault # "none" /\ ~(TagFault(c) /\ c.index = "index")
DataFault(c) == c.index = "mismatch" \/ (TagFault(c) /\ c.index = "index")

ValidCfg(c) ==
  /\ c.source = "stream" => c.index \in {"none", "indexonly"}     \* an index beside the data needs a path
  /\ c.index = "mismatch" => c.fault = "none"
  /\ c.index = "indexonly" => c.fault \in {"none", "unknown_type"}
  /\ c.fault = "interrupt" => c.index \in {"none", "index"}
Cfgs == {c \in [source : Sources, index : IndexKinds, fault : Faults] : ValidCfg(c)}

\* descriptors the library opens in the constructor for this input
Opened(c) == IF c.source = "stream" THEN {}
             ELSE IF c.index = "indexonly" THEN {"index"}
             ELSE IF c.index = "none" THEN {"data"} ELSE {"data", "index"}
\* after metadata has been read the library-opened index file is closed again
AfterMeta(c) == Opened(c) \ {"index"}

Act(o) == /\ obs' = o /\ hist' = Append(hist, o)
CanAct == Len(hist) < MaxHist

Init == /\ cfg \in Cfgs /\ api = "none" /\ libfds = {} /\ callerClosed = FALSE
        /\ obs = [op |-> "none"] /\ hist = <<>> /\ gen = [kind |-> "none", taken |-> 0]

\* TdmsFile.read / TdmsFile.read_metadata: everything the library opened is closed when the call returns or raises
ReadCall(kind) ==
  /\ CanAct /\ api = "none"
  /\ LET raises == MetaFault(cfg) \/ (kind = "read" /\ DataFault(cfg)) IN
     /\ Act([op |-> kind, raises |-> raises, fds |-> {}])
     /\ api' = IF raises THEN "failed"
               ELSE IF kind = "read" /\ cfg.index # "indexonly" THEN "eager" ELSE "meta"     \* index only: no data to load
     /\ libfds' = {}
  /\ UNCHANGED <<cfg, callerClosed, gen>>

\* TdmsFile.open: on success the data file stays open (the library-opened index is already closed)
OpenCall ==
  /\ CanAct /\ api = "none"
  /\ IF MetaFault(cfg)
     THEN /\ Act([op |-> "open", raises |-> TRUE, fds |-> {"unspecified"}])   \* outside the statement: not asserted
          /\ api' = "open_failed" /\ libfds' = Opened(cfg)
     ELSE /\ Act([op |-> "open", raises |-> FALSE, fds |-> Opened(cfg), atmost |-> TRUE])    \* while open: at most these
          /\ api' = "lazy" /\ libfds' = AfterMeta(cfg)
  /\ UNCHANGED <<cfg, callerClosed, gen>>

\* TdmsFile(source, keep_open=True): all data is read into memory AND the file stays open until close()
CtorKeepOpen ==
  /\ CanAct /\ api = "none" /\ cfg.index # "indexonly"
  /\ IF MetaFault(cfg) \/ DataFault(cfg)
     THEN /\ Act([op |-> "ctor_keep_open", raises |-> TRUE, fds |-> {"unspecified"}])      \* outside the statement
          /\ api' = "open_failed" /\ libfds' = Opened(cfg)
     ELSE /\ Act([op |-> "ctor_keep_open", raises |-> FALSE, fds |-> Opened(cfg), atmost |-> TRUE])
          /\ api' = "eagerkeep" /\ libfds' = AfterMeta(cfg)
  /\ UNCHANGED <<cfg, callerClosed, gen>>

\* a read that needs the file, on the open object
ReadData ==
  /\ CanAct /\ api = "lazy"
  /\ Act([op |-> "read_data", raises |-> DataFault(cfg) \/ cfg.index = "indexonly", fds |-> Opened(cfg), atmost |-> TRUE])
  /\ UNCHANGED <<cfg, api, libfds, callerClosed, gen>>

\* close() or leaving the with-block; may be repeated
Close(how) ==
  /\ CanAct /\ api \in {"lazy", "closed", "eagerkeep", "eagerclosed"}
  /\ Act([op |-> how, raises |-> FALSE, fds |-> {}])
  /\ api' = (IF api \in {"eagerkeep", "eagerclosed"} THEN "eagerclosed" ELSE "closed") /\ libfds' = {}
  /\ UNCHANGED <<cfg, callerClosed, gen>>

ReadAfterClose ==
  /\ CanAct /\ api = "closed"
  /\ Act([op |-> "read_data", raises |-> TRUE, fds |-> {}])
  /\ UNCHANGED <<cfg, api, libfds, callerClosed, gen>>

\* eager data lives in memory and stays readable after the file was closed by the constructor
ReadEager ==
  /\ CanAct /\ api \in {"eager", "eagerkeep", "eagerclosed"}
  /\ IF api = "eagerkeep"
     THEN Act([op |-> "read_data", raises |-> FALSE, fds |-> Opened(cfg), atmost |-> TRUE])     \* the file is still held
     ELSE Act([op |-> "read_data", raises |-> FALSE, fds |-> {}])
  /\ UNCHANGED <<cfg, api, libfds, callerClosed, gen>>

\* only metadata was read (read_metadata, or read of an index file alone): the file is closed, data reads raise
ReadMetaOnly ==
  /\ CanAct /\ api = "meta"
  /\ Act([op |-> "read_data", raises |-> TRUE, fds |-> {}])
  /\ UNCHANGED <<cfg, api, libfds, callerClosed, gen>>

\* TdmsWriter used as a context manager on a path / stream, with or without index file; the body may raise.
\* A writer given a path may be entered again after its block was left: each block opens and closes its own files
\* (a writer given streams drops them when its block is left and cannot be entered again).
WriterWith(bodyRaises) ==
  /\ CanAct /\ (api = "none" \/ (api = "written" /\ cfg.source = "path" /\ \E i \in DOMAIN hist : hist[i].op = "writer_with"))
  /\ cfg.fault = "none" /\ cfg.index \in {"none", "index"}
  /\ Act([op |-> "writer_with", raises |-> bodyRaises, fds |-> {},
          during |-> IF cfg.source = "stream" THEN {} ELSE IF cfg.index = "index" THEN {"data", "index"} ELSE {"data"}])
  /\ api' = "written" /\ libfds' = {}
  /\ UNCHANGED <<cfg, callerClosed, gen>>

\* a chunk generator (channel.data_chunks() / TdmsFile.data_chunks()) is started on the open file and `taken' chunks
\* are consumed (the input file has three chunks: two in its first segment, one in the second)
StartStream ==
  /\ CanAct /\ api \in {"lazy", "eagerkeep"} /\ gen.kind = "none" /\ ~DataFault(cfg) /\ cfg.index # "indexonly"
  /\ \E kd \in (IF api = "lazy" THEN {"chan", "file"} ELSE {"file"}) : \E m \in {1, 2} :
        /\ gen' = [kind |-> kd, taken |-> m]
        /\ Act([op |-> "stream_start", kind |-> kd, taken |-> m, raises |-> FALSE, fds |-> Opened(cfg), atmost |-> TRUE])
  /\ UNCHANGED <<cfg, api, libfds, callerClosed>>
\* resuming it after close() is a read that needs the file: it raises, wherever the generator stands (inside a segment
\* or at a segment boundary) and whoever supplied the file (path or caller's stream)
StreamNextAfterClose ==
  /\ CanAct /\ api \in {"closed", "eagerclosed"} /\ gen.kind # "none"
  /\ Act([op |-> "stream_next", raises |-> TRUE, fds |-> {}])
  /\ gen' = [kind |-> "none", taken |-> 0]
  /\ UNCHANGED <<cfg, api, libfds, callerClosed>>

\* TdmsWriter.defragment(source, destination path): when it returns, neither the source (if the library opened it) nor the
\* destination is held open
\* It loads the source eagerly, so any fault of the input makes it raise (as TdmsFile.read does); "returns or raises"
\* covers that like every other call: nothing stays open.
Defragment ==
  /\ CanAct /\ api = "none" /\ cfg.index \in {"none", "index"}
  /\ LET raises == cfg.fault # "none" IN
     /\ Act([op |-> "defragment", raises |-> raises, fds |-> {}])
     /\ api' = IF raises THEN "failed" ELSE "written"
  /\ libfds' = {}
  /\ UNCHANGED <<cfg, callerClosed, gen>>

\* defragment of a good source into a destination that cannot be opened (its directory does not exist): raises after
\* the source was read, and the source is not left open
DefragmentBadDest ==
  /\ CanAct /\ api = "none" /\ cfg.fault = "none" /\ cfg.index \in {"none", "index"}
  /\ Act([op |-> "defragment_baddest", raises |-> TRUE, fds |-> {}])
  /\ api' = "failed"
  /\ libfds' = {}
  /\ UNCHANGED <<cfg, callerClosed, gen>>

\* write_segment on a writer whose block was left: refused, and nothing is (re)opened
WriterLateWrite ==
  /\ CanAct /\ api = "written" /\ \E i \in DOMAIN hist : hist[i].op = "writer_with"
  /\ Act([op |-> "late_write", raises |-> TRUE, fds |-> {}])
  /\ UNCHANGED <<cfg, api, libfds, callerClosed, gen>>

Next == \/ ReadCall("read") \/ ReadCall("read_metadata") \/ OpenCall \/ ReadData \/ Close("close") \/ Close("exit_with")
        \/ ReadAfterClose \/ ReadEager \/ ReadMetaOnly \/ WriterWith(FALSE) \/ WriterWith(TRUE) \/ WriterLateWrite
        \/ StartStream \/ StreamNextAfterClose \/ CtorKeepOpen \/ Defragment \/ DefragmentBadDest
Spec == Init /\ [][Next]_vars

(* ------------------------------ properties ------------------------------ *)
\* C20: after read / read_metadata returned or raised, after close() or the with-block, and after the writer's
\* with-block, the library holds no descriptor
NoLibraryFd == api \in {"eager", "meta", "failed", "closed", "written", "eagerclosed"} => libfds = {}
\* only the data file may stay open, and only while the object is lazily open on a path
OnlyDataWhileLazy == libfds # {} => (api \in {"lazy", "open_failed", "eagerkeep"} /\ cfg.source = "path")
CallerStreamsNeverClosed == ~callerClosed
ReadAfterCloseRaises == (obs.op = "read_data" /\ api \in {"closed", "meta"}) => obs.raises

GenCase == (GenPrint /\ Len(hist) > 0) => PrintT(<<"GEN", ToJson([cfg |-> cfg, hist |-> hist])>>)
=============================================================================
